"""Batch runner for the MPI drivers of C14 / C21 / C22 (identical copy in each harness directory).

One mpiexec run executes a *batch* of generated cases (start-up is ~2-4 s, a case is milliseconds).
Driver contract (argv[1] = case file = header + concatenated case blocks, all ranks read it):
  * rank 0 writes $VF_OUT with vf::dump(), `$VF_OUT.pos` = index of the case being executed,
    `$VF_OUT.fail` / `.failmsg` = stand-alone case file of the first failing case + message (exit 1);
  * any rank's watchdog writes `$VF_OUT.hang` (line 1 = case index, line 2 = what is missing, rest = stand-alone
    case file) and _exit(3)s when nothing moved for T_q *and* an expected event is missing (DESIGN 4.1).
This module runs the batches in parallel, and triages what is not a clean pass:
  failing case -> re-run alone (then with its batch prefix) -> Violation with the smallest text that reproduces;
  hang         -> replayed alone 3x with T_q doubled each time; violation only if all three are quiescent-incomplete
                  (if none is: the batch prefix up to the case is replayed twice; both hanging = violation);
  crash        -> replayed alone; reproducible => violation, otherwise counted inconclusive;
  timeout      -> inconclusive;  the cases after a crashed/hung one are re-run as a new batch.
"""
import itertools
import os
import subprocess
import threading

from hypothesis import HealthCheck, Phase, given, settings
from hypothesis import seed as hseed

from vf import core

# fixed transport (shared memory only): no probing of fabrics, same eager/rendezvous thresholds on every run
OMPI_ENV = {"OMPI_MCA_pml": "ob1", "OMPI_MCA_btl": "self,vader"}


def generate(strategy, n, seed):
    """n values of `strategy` from Hypothesis, seeded; generation only (the cases run later, in batches)."""
    out = []

    @hseed(seed)
    @settings(database=None, deadline=None, derandomize=False, max_examples=n,
              suppress_health_check=list(HealthCheck), phases=[Phase.generate])
    @given(strategy)
    def collect(x):
        out.append(x)

    collect()
    return out


class Batch:
    def __init__(self, P, header, cases, env=None, tag=""):
        self.P, self.header, self.cases, self.env, self.tag = P, header, list(cases), dict(env or {}), tag

    def text(self, lo=0, hi=None):
        return self.header + "".join(self.cases[lo:hi])


def _cmd(binary, P, path):
    return ["mpiexec", "--oversubscribe", "-n", str(P), binary, path]


_solo_n = itertools.count(1)


def run_solo(prop, binary, P, text, env=None, timeout=120):
    """Run one case file alone.  -> (status, message); status in pass|fail|hang|crash|timeout."""
    rd = core.run_dir(prop)
    base = os.path.join(rd, "solo%04d" % next(_solo_n))
    with open(base + ".case", "w") as f:
        f.write(text)
    out = base + ".json"
    e = dict(os.environ)
    e.update(core.MPI_ENV)
    e.update(OMPI_ENV)
    e.update(env or {})
    e["VF_OUT"] = out
    try:
        p = subprocess.run(_cmd(binary, P, base + ".case"), env=e, stdout=subprocess.PIPE, stderr=subprocess.STDOUT,
                           text=True, errors="replace", timeout=timeout, cwd=rd)
    except subprocess.TimeoutExpired:
        return "timeout", "no result after %ds" % timeout
    if os.path.exists(out + ".fail"):
        return "fail", (open(out + ".failmsg").read().strip() if os.path.exists(out + ".failmsg") else "")
    if os.path.exists(out + ".hang"):
        return "hang", open(out + ".hang").read().split("\n")[1][:700]
    if p.returncode != 0:
        return "crash", "rc=%s %s" % (p.returncode, _tail(p.stdout))
    return "pass", ""


def in_background(fn, *args):
    """Run fn(*args) in a thread (the regression replays overlap with the batches); returns the thread to join."""
    t = threading.Thread(target=fn, args=args, daemon=True)
    t.start()
    return t


def _tail(s, n=700):
    lines = [l for l in s.splitlines() if l.strip() and not l.startswith("---") and "mpiexec" not in l and
             "Per user-direction" not in l and "Primary job" not in l]
    return " | ".join(lines)[-n:]


def run_batches(prop, binary, batches, res, part, timeout=600, max_parallel=None, tq_env="VF_TQ_MS", tq_ms=5000,
                shrink=None):
    """Run all batches, fold counts into res (core.Result) under label prefix `part`, triage failures."""
    todo = list(batches)
    rounds = 0
    incon = 0
    while todo and rounds < 4:
        rounds += 1
        rd = core.run_dir(prop)
        jobs = []
        for i, b in enumerate(todo):
            path = os.path.join(rd, "%s-r%d-b%03d.case" % (part, rounds, i))
            with open(path, "w") as f:
                f.write(b.text())
            for suf in (".hang", ".pos"):
                try:
                    os.unlink(os.path.join(rd, "w%03d.json%s" % (i, suf)))
                except OSError:
                    pass
            env = dict(OMPI_ENV)
            env.update(b.env)
            env[tq_env] = str(tq_ms)
            jobs.append(dict(cmd=_cmd(binary, b.P, path), env=env, tag=part, timeout=timeout))
        wr = core.run_workers(prop, jobs, san=False, max_parallel=max_parallel)
        res.absorb(wr, part)
        again = []
        for f in wr.failures:
            b = todo[f["worker"]]
            pos = _pos(rd, f["worker"])
            _triage_failure(prop, binary, b, pos, f, res, shrink)
        for c in wr.crashes:
            i = c["worker"]
            b = todo[i]
            pos = _pos(rd, i)
            if res.violations:          # one confirmed violation decides the run; do not spend minutes on the others
                _lab(res, part, "abnormal_end_not_triaged_after_violation")
                continue
            hangf = os.path.join(rd, "w%03d.json.hang" % i)
            if os.path.exists(hangf):
                txt = open(hangf).read().split("\n", 2)
                case_text = txt[2] if len(txt) > 2 else b.text(pos, pos + 1)
                verdict = _triage_hang(prop, binary, b, case_text, txt[1] if len(txt) > 1 else "", res, tq_env, tq_ms,
                                       prefix=b.text(0, pos + 1) if pos else None)
                _lab(res, part, "hang_" + verdict)
                incon += verdict != "violation"
            elif c["rc"] == "timeout":
                _lab(res, part, "timeout_inconclusive")
                incon += 1
            else:
                st, msg = ("pass", "") if pos is None else run_solo(prop, binary, b.P, b.text(pos, pos + 1), b.env)
                if st == "crash":
                    res.violations.append(core.Violation("process died (reproduced alone): %s" % msg, replay_text=b.text(pos, pos + 1)))
                elif st == "fail":
                    res.violations.append(core.Violation(msg, replay_text=b.text(pos, pos + 1)))
                else:
                    # only with its predecessors? run the prefix once more
                    st2, msg2 = ("pass", "") if pos is None else run_solo(prop, binary, b.P, b.text(0, pos + 1), b.env, timeout=timeout)
                    if st2 in ("crash", "fail"):
                        res.violations.append(core.Violation("process died after the preceding cases of its batch (%s): %s" % (st2, msg2),
                                                             replay_text=b.text(0, pos + 1)))
                    else:
                        _lab(res, part, "crash_not_reproduced")
                        incon += 1
                        core.log("%s: crash of a batch not reproduced: %s" % (prop, c["log_tail"][-300:].replace("\n", " | ")))
            if pos is not None and pos + 1 < len(b.cases):
                again.append(Batch(b.P, b.header, b.cases[pos + 1:], b.env, b.tag))
        todo = again if not res.violations else []
    if incon:
        res.coverage.setdefault("inconclusive_cases", 0)
        res.coverage["inconclusive_cases"] += incon


def _lab(res, part, name):
    lab = res.coverage.setdefault("labels", {})
    lab[part + ":" + name] = lab.get(part + ":" + name, 0) + 1


def _pos(rd, i):
    try:
        return int(open(os.path.join(rd, "w%03d.json.pos" % i)).read().split()[0])
    except Exception:
        return None


def _triage_failure(prop, binary, b, pos, f, res, shrink):
    text = f["replay_text"]
    st, msg = run_solo(prop, binary, b.P, text, b.env)
    if st in ("fail", "crash"):
        if shrink is not None:
            try:
                text, msg2 = shrink(text, lambda t: run_solo(prop, binary, b.P, t, b.env)[0] in ("fail", "crash"))
                st3, msg3 = run_solo(prop, binary, b.P, text, b.env)
                if st3 in ("fail", "crash"):
                    msg = msg3
            except Exception as e:   # shrinking is best effort
                core.log("shrink failed: %r" % (e,))
        res.violations.append(core.Violation(msg or f["msg"], replay_text=text))
        return
    if pos is not None:
        pre = b.text(0, pos + 1)
        st2, msg2 = run_solo(prop, binary, b.P, pre, b.env)
        if st2 in ("fail", "crash"):
            res.violations.append(core.Violation("(needs the preceding cases of its batch) " + (msg2 or f["msg"]), replay_text=pre))
            return
    # the oracle is sound: a failure seen once is a failure; the replays only document the rate
    res.violations.append(core.Violation("(seen once, not reproduced by 2 replays) " + f["msg"], replay_text=text))


def _triage_hang(prop, binary, b, case_text, what, res, tq_env, tq_ms, prefix=None):
    hangs = 0
    last = what
    for k in range(3):
        env = dict(b.env)
        env[tq_env] = str(tq_ms * (2 ** (k + 1)))
        st, msg = run_solo(prop, binary, b.P, case_text, env, timeout=60 + 3 * tq_ms * (2 ** (k + 1)) // 1000)
        if st == "hang":
            hangs += 1
            last = msg
        elif st in ("fail", "crash"):
            res.violations.append(core.Violation(msg, replay_text=case_text))
            return "violation"
        else:
            break
    if hangs == 3:
        res.violations.append(core.Violation("quiescent-incomplete in the batch and in 3 of 3 solo replays: " + last, replay_text=case_text))
        return "violation"
    # not reproducible alone: does it need the engine/runtime state left by the preceding cases of its batch?
    if prefix is not None and hangs == 0:
        env = dict(b.env)
        env[tq_env] = str(tq_ms * 2)
        again = [run_solo(prop, binary, b.P, prefix, env, timeout=600) for _ in range(2)]
        if all(st == "hang" for st, _ in again):
            res.violations.append(core.Violation("quiescent-incomplete after the preceding cases of its batch, in the batch and in 2 of 2 "
                                                 "replays of that prefix (not when run alone): " + again[-1][1], replay_text=prefix))
            return "violation"
    try:                                   # keep the case for later inspection (scratch area, not the corpus)
        d = os.path.join(core.WORK, "inconclusive", prop)
        os.makedirs(d, exist_ok=True)
        with open(os.path.join(d, "hang-%d-%d.txt" % (os.getpid(), next(_solo_n))), "w") as f:
            f.write("# watchdog fired once in a batch, not in 3 solo replays: %s\n%s" % (what[:500], case_text))
    except OSError:
        pass
    det = res.coverage.setdefault("inconclusive_details", [])
    if len(det) < 5:
        det.append("watchdog fired in a batch, %d of 3 solo replays did: %s | case: %s" % (hangs, what[:300], case_text[:300].replace("\n", " / ")))
    return "not_reproduced_%d_of_3" % hangs


def shrink_lines(text, still_fails, budget=40):
    """Greedy delta debugging over the op lines of a single-case file (lines "<upper-case letter> <args>"); every
    other line is structural and stays.  Returns (smaller text, '')."""
    lines = text.splitlines(True)
    idx = [i for i, l in enumerate(lines) if l[:1].isupper() and len(l) > 1 and l[1] == " "]
    n = max(1, len(idx) // 2)
    runs = 0
    while idx and runs < budget:
        progress = False
        k = 0
        while k < len(idx) and runs < budget:
            drop = set(idx[k:k + n])
            cand = "".join(l for i, l in enumerate(lines) if i not in drop)
            runs += 1
            if still_fails(cand):
                lines = [l for i, l in enumerate(lines) if i not in drop]
                idx = [i for i, l in enumerate(lines) if l[:1].isupper() and len(l) > 1 and l[1] == " "]
                progress = True
            else:
                k += n
        if n == 1 and not progress:
            break
        n = max(1, n // 2)
    return "".join(lines), ""
