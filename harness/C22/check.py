"""C22 -- matrix operators: parsec_apply / parsec_map_operator visit each tile once and fold correctly; reductions.

Hypothesis generates cases; cases are grouped by (ranks, threads); every group is one mpiexec run of
harness/C22/ops_driver.cc, which self-checks with per-tile invocation counters and int64 sum/xor/max folds.
"""
import os

from hypothesis import strategies as st

from vf import core
import mpibatch as mb

PROP = "C22"
RULE = ("case = apply(uplo full/upper/lower, 2D block-cyclic | symmetric 2D block-cyclic | SBC, mt x nt tiles 1..12, tile "
        "sizes, partial edge tiles, grid, supertiles) or map_operator(int64 sum/xor/max, dest NULL or aligned matrix) "
        "[or reduce_col/row/reduce when C22_INCLUDE_REDUCE=1], on P ranks x T threads; oracle apply: operator invocation "
        "counter == 1 on every local tile of the region and 0 elsewhere, tile pointer / uplo / descriptor arguments right, "
        "tile data == initial+1 exactly on the region; map: every local tile visited once with its (src,dest) pointers, dest "
        "== image of src, fold over ranks == sequential fold of the definition; non-trivial = non-square tile grid AND "
        "(apply: uplo != full) AND (P >= 2 OR threads >= 2); distinct = distinct case lines")
ASSUME = ["8-byte elements (PARSEC_MATRIX_DOUBLE storage) reinterpreted as int64 by the test operators",
          "triangular storage (sym 2DBC, SBC): square matrix with square tiles, uplo names the stored part; SBC needs P in {1,2,3}",
          "map_operator: src is a full 2D block-cyclic matrix, dest (if any) has the same distribution",
          "by default every rank owns at least one tile of the map_operator source: finding C22-F1 (a rank without tiles "
          "never terminates); C22_ALLOW_MAP_EMPTY_RANK=1 lifts the exclusion",
          "by default reduce_col / reduce_row are not generated and reduce.jdf only with an odd number of tiles: findings "
          "C22-F2, C22-F3 (out-of-range tasks; operator never invoked); C22_INCLUDE_REDUCE=1 generates them"]


def _build():
    return core.build_harness("C22/ops_driver", ["harness/C22/ops_driver.cc"], tree="hooks",
                              extra_cflags=["-DOMPI_SKIP_MPICXX", "-DMPICH_SKIP_MPICXX"])


@st.composite
def case(draw, P, allow_empty, with_reduce):
    """-> (case line, excluded_F1, excluded_reduce)"""
    kinds = "AAAAAAAAAAAMMMMMMMMEr" if not with_reduce else "AAAAAAMMMMEECCCWWW"
    k = draw(st.sampled_from(kinds))
    grid = st.integers(1, 12)
    mt, nt = draw(grid), draw(grid)
    MB, NB = draw(st.integers(1, 3)), draw(st.integers(1, 3))
    padm, padn = draw(st.integers(0, MB - 1)), draw(st.integers(0, NB - 1))
    divs = [d for d in range(1, P + 1) if P % d == 0]
    Prow = draw(st.sampled_from(divs))
    kp, kq = draw(st.integers(1, 3)), draw(st.integers(1, 3))
    if k == "r":                      # a reduction that the default generation leaves out
        return None, 0, 1
    if k == "A":
        dist = draw(st.sampled_from([0, 0, 0, 1, 2] if P in (1, 2, 3) else [0, 0, 1]))
        uplo = draw(st.integers(0, 2)) if dist == 0 else draw(st.integers(1, 2))
        if dist != 0:                 # symmetric storage describes a square matrix (callers' precondition)
            kp = kq = 1
            nt, NB, padn = mt, MB, padm
        return "A %d %d %d %d %d %d %d %d %d %d %d\n" % (uplo, dist, mt, nt, MB, NB, padm, padn, Prow, kp, kq), 0, 0
    if k == "M":
        if draw(st.integers(0, 4)) == 0:
            # many narrow columns, one element per tile: the operator's columns are handed out to the worker threads
            # through a shared counter, and only with many more columns than threads do the hand-outs overlap in time
            mt, nt = draw(st.integers(1, 3)), draw(st.sampled_from([300, 1000, 4000, 12000]))
            MB = NB = 1
            padm = padn = 0
        Q = P // Prow
        excl = 0
        if not allow_empty and not ((mt - 1) // kp >= Prow - 1 and (nt - 1) // kq >= Q - 1):
            mt, nt = max(mt, (Prow - 1) * kp + 1), max(nt, (Q - 1) * kq + 1)
            excl = 1
        return "M %d %d %d %d %d %d %d %d %d %d %d\n" % (draw(st.integers(0, 2)), draw(st.integers(0, 1)), mt, nt, MB, NB, padm, padn, Prow, kp, kq), excl, 0
    if k == "E":
        if not with_reduce and mt % 2 == 0:
            mt += 1
        return "E %d %d\n" % (mt, draw(st.integers(1, 8))), 0, 0
    return "%s %d %d %d %d %d %d\n" % (k, draw(st.integers(0, 2)), mt, nt, MB, NB, Prow), 0, 0


def _P_of(text):
    for l in text.splitlines():
        if l.startswith("hdr "):
            return int(l.split()[1])
    raise ValueError("no hdr line")


def run(tier, seed, res):
    b = _build()
    quick = tier == "quick"
    res.rule = RULE
    res.assumptions = ASSUME
    allow_empty = os.environ.get("C22_ALLOW_MAP_EMPTY_RANK", "") == "1"
    with_reduce = os.environ.get("C22_INCLUDE_REDUCE", "") == "1"
    groups = [(1, 2), (2, 1), (2, 3), (3, 2), (4, 1), (4, 2), (1, 8), (3, 4)] if quick else \
        [(P, T) for P in (1, 2, 3, 4) for T in (1, 2, 4, 8)] * 2
    per = 150 if quick else 1200
    batches, ex1, ex2 = [], 0, 0
    for i, (P, T) in enumerate(groups):
        gen = mb.generate(case(P, allow_empty, with_reduce), per, seed * 1000 + i)
        ex1 += sum(g[1] for g in gen)
        ex2 += sum(g[2] for g in gen)
        batches.append(mb.Batch(P, "hdr %d %d\n" % (P, T), [g[0] for g in gen if g[0]], tag="P%dT%d" % (P, T)))
    res.coverage["excluded_by_construction:C22-F1_map_operator_rank_without_tiles(cases enlarged)"] = ex1
    res.coverage["excluded_by_construction:C22-F2/F3_reductions(cases dropped)"] = ex2
    bg = mb.in_background(_regress, b, res)
    mb.run_batches(PROP, b, batches, res, "cases", timeout=300 if quick else 1800, max_parallel=4,
                   tq_ms=5000 if quick else 20000)
    bg.join()
    floor = 40 if quick else 3000
    if not res.violations and res.distinct_nontrivial < floor:
        res.inconclusive = "only %d non-trivial cases executed (floor %d)" % (res.distinct_nontrivial, floor)


def _regress(b, res):
    d = os.path.join(core.VERIF, "corpus", PROP, "regress")
    known = {f.get("id"): f for f in core.known_for(PROP)}
    for name in sorted(os.listdir(d)) if os.path.isdir(d) else []:
        text = open(os.path.join(d, name)).read()
        expect_fail = "# EXPECT: violation" in text
        stt, msg = mb.run_solo(PROP, b, _P_of(text), text)
        lab = res.coverage.setdefault("labels", {})
        lab["regress:%s:%s" % (name, stt)] = 1
        if expect_fail:
            fid = ([l.split(":", 1)[1].strip() for l in text.splitlines() if l.startswith("# FINDING:")] or [name])[0]
            if stt in ("fail", "crash", "hang"):
                if fid in known:
                    res.known.append("%s reproduced by corpus/%s/regress/%s" % (fid, PROP, name))
                else:
                    res.coverage.setdefault("open_findings_reproduced", []).append("%s (corpus/%s/regress/%s): %s" % (fid, PROP, name, msg[:200]))
        elif stt != "pass":
            res.violations.append(core.Violation("regression case %s: %s %s" % (name, stt, msg), replay_path=os.path.join(d, name)))


def replay(path):
    b = _build()
    text = open(path).read()
    last = ("pass", "")
    for _ in range(3):
        stt, msg = mb.run_solo(PROP, b, _P_of(text), text)
        if stt in ("fail", "crash"):
            return False, "%s: %s" % (stt, msg)
        if stt == "hang":
            last = (stt, msg)
            continue
        if stt == "timeout":
            return True, "inconclusive: timeout"
        return True, "pass"
    return False, "quiescent-incomplete in 3 of 3 replays: " + last[1]
