// C22 -- matrix operators: parsec_apply visits every tile of the region once; parsec_map_operator visits every local
// tile once and folds correctly; reduce_col / reduce_row / reduce combine every tile once (see check.py: stubs).
// Case file:
//   hdr <P> <threads>
//   A <uplo> <dist> <mt> <nt> <MB> <NB> <padm> <padn> <Prow> <kp> <kq>      parsec_apply   (uplo 0 full, 1 upper, 2 lower;
//                                                dist 0 = 2D block cyclic, 1 = symmetric 2D block cyclic, 2 = SBC)
//   M <op> <dest> <mt> <nt> <MB> <NB> <padm> <padn> <Prow> <kp> <kq>        parsec_map_operator_New (op 0 sum, 1 xor, 2 max; dest 0/1)
//   C|W <op> <mt> <nt> <MB> <NB> <Prow>                                      parsec_reduce_col_New / parsec_reduce_row_New
//   E <mt> <MB>                                                              parsec_reduce_new (reduce.jdf), as tests/collections/reduce.c
// Matrix is (mt*MB - padm) x (nt*NB - padn): pad > 0 gives partial edge tiles.
#include "mpidrv.hpp"
extern "C" {
#include "parsec/data_dist/matrix/matrix.h"
#include "parsec/data_dist/matrix/two_dim_rectangle_cyclic.h"
#include "parsec/data_dist/matrix/sym_two_dim_rectangle_cyclic.h"
#include "parsec/data_dist/matrix/sbc.h"
#include "parsec/data_dist/matrix/reduce.h"
#include "parsec/data_internal.h"
#include "parsec/arena.h"
}
using drv::fmt;

struct Case { char k; int uplo, dist, op, dest, mt, nt, MB, NB, padm, padn, Prow, kp, kq; std::string text; };
static std::vector<Case> cases;
static std::string header;
static int hdrP, hdrT;

static inline int64_t val(long i, long j) { uint64_t z = (uint64_t)i * 0x9E3779B97F4A7C15ULL ^ (uint64_t)(j + 1) * 0xBF58476D1CE4E5B9ULL; z ^= z >> 29; return (int64_t)(z & 0xFFFFFF) - 0x7FFFFF; }
static int64_t fold(int op, int64_t a, int64_t b) { return op == 0 ? a + b : op == 1 ? (a ^ b) : (a > b ? a : b); }
static int64_t neutral(int op) { return op == 2 ? INT64_MIN : 0; }

struct Mat {
    parsec_matrix_block_cyclic_t bc; parsec_matrix_sym_block_cyclic_t sy; parsec_matrix_sbc_t sbc;
    parsec_tiled_matrix_t *d = nullptr; void **mat = nullptr; int dist = 0, uplo = 0;
    std::vector<int64_t *> tile;          // [m*nt+n] local tile pointer or null
};
static int sbc_r(int nodes) { for (int r = 2; r < 64; r++) if (nodes == r * (r - 1) / 2 || (r % 2 == 0 && nodes == r * r / 2)) return r; return -1; }
static bool stored(const Mat &m, int tm, int tn) { return m.dist == 0 || (m.uplo == 1 ? tm <= tn : tm >= tn); }

static bool mk(Mat &m, int dist, int uplo, int mb, int nb, int lm, int ln, int Prow, int kp, int kq, const char *name) {
    m.dist = dist; m.uplo = uplo;
    parsec_matrix_uplo_t u = uplo == 1 ? PARSEC_MATRIX_UPPER : PARSEC_MATRIX_LOWER;
    if (dist == 0) {
        parsec_matrix_block_cyclic_init(&m.bc, PARSEC_MATRIX_DOUBLE, PARSEC_MATRIX_TILE, drv::me, mb, nb, lm, ln, 0, 0, lm, ln, Prow, drv::np / Prow, kp, kq, 0, 0);
        m.d = &m.bc.super; m.mat = &m.bc.mat;
    } else if (dist == 1) {
        parsec_matrix_sym_block_cyclic_init(&m.sy, PARSEC_MATRIX_DOUBLE, drv::me, mb, nb, lm, ln, 0, 0, lm, ln, Prow, drv::np / Prow, u);
        m.d = &m.sy.super; m.mat = &m.sy.mat;
    } else {
        int r = sbc_r(drv::np);
        if (r < 0 || PARSEC_SUCCESS != parsec_matrix_sbc_init(&m.sbc, PARSEC_MATRIX_DOUBLE, drv::me, mb, nb, lm, ln, 0, 0, lm, ln, drv::np, r, u)) return false;
        m.d = &m.sbc.super; m.mat = &m.sbc.mat;
    }
    size_t bytes = (size_t)m.d->nb_local_tiles * (size_t)m.d->bsiz * sizeof(double);
    *m.mat = bytes ? parsec_data_allocate(bytes) : nullptr;
    parsec_data_collection_set_key(&m.d->super, name);
    parsec_data_collection_t *dc = &m.d->super;
    m.tile.assign((size_t)m.d->lmt * m.d->lnt, nullptr);
    for (int tn = 0; tn < m.d->lnt; tn++) for (int tm = 0; tm < m.d->lmt; tm++) {
        if (!stored(m, tm, tn) || (int)dc->rank_of(dc, tm, tn) != drv::me) continue;
        m.tile[(size_t)tm * m.d->lnt + tn] = (int64_t *)PARSEC_DATA_COPY_GET_PTR(parsec_data_get_copy(dc->data_of(dc, tm, tn), 0));
    }
    return true;
}
static void rm(Mat &m) { if (!m.d) return; parsec_tiled_matrix_destroy(m.d); if (*m.mat) parsec_data_free(*m.mat); *m.mat = nullptr; m.d = nullptr; }
static void fill(Mat &m, int64_t add) {
    int mb = m.d->mb, nb = m.d->nb, nt = m.d->lnt;
    for (int tm = 0; tm < m.d->lmt; tm++) for (int tn = 0; tn < nt; tn++) { int64_t *p = m.tile[(size_t)tm * nt + tn]; if (!p) continue;
        for (int j = 0; j < nb; j++) for (int i = 0; i < mb; i++) p[(size_t)j * mb + i] = val((long)tm * mb + i, (long)tn * nb + j) + add; }
}

// ---------------------------------------------------------------- operators (run on PaRSEC worker threads)
static Mat *g_src, *g_dst; static const Case *g_case; static long g_lm, g_ln;   // true matrix size (the descriptor's lm/ln include the tile padding)
static std::vector<int> g_cnt;                 // invocations per tile (m*nt+n)
static volatile int g_bad;                     // operator saw wrong arguments
static char g_badmsg[300];
static int64_t g_acc; static pthread_mutex_t g_mx = PTHREAD_MUTEX_INITIALIZER;
static void bad(const std::string &s) { pthread_mutex_lock(&g_mx); if (!g_bad) { snprintf(g_badmsg, sizeof g_badmsg, "%s", s.c_str()); g_bad = 1; } pthread_mutex_unlock(&g_mx); }

static int apply_op(struct parsec_execution_stream_s *es, const parsec_tiled_matrix_t *desc, void *A, int uplo, int m, int n, void *args) {
    (void)es;
    __sync_fetch_and_add(&drv::tick, 1);
    if (args != (void *)g_case) bad("operator called with foreign op_args");
    if (desc != g_src->d) bad("operator called with a foreign descriptor");
    if (m < 0 || n < 0 || m >= g_src->d->lmt || n >= g_src->d->lnt) { bad(fmt("operator called on tile (%d,%d) outside the %dx%d tile grid", m, n, g_src->d->lmt, g_src->d->lnt)); return 0; }
    size_t ix = (size_t)m * g_src->d->lnt + n;
    __sync_fetch_and_add(&g_cnt[ix], 1);
    if (!g_src->tile[ix]) { bad(fmt("operator called on rank %d for tile (%d,%d) that is not stored here", drv::me, m, n)); return 0; }
    if (A != (void *)g_src->tile[ix]) bad(fmt("operator for tile (%d,%d) got pointer %p, the tile is at %p", m, n, A, (void *)g_src->tile[ix]));
    int want = m == n ? (g_case->uplo == 0 ? PARSEC_MATRIX_FULL : g_case->uplo == 1 ? PARSEC_MATRIX_UPPER : PARSEC_MATRIX_LOWER) : PARSEC_MATRIX_FULL;
    if (uplo != want) bad(fmt("operator for tile (%d,%d) got uplo %d, expected %d", m, n, uplo, want));
    int64_t *p = (int64_t *)A; size_t ne = (size_t)g_src->d->mb * g_src->d->nb;
    for (size_t e = 0; e < ne; e++) p[e] += 1;
    return 0;
}
static int map_op(struct parsec_execution_stream_s *es, const void *src, void *dst, void *op_data, ...) {
    (void)es;
    va_list ap; va_start(ap, op_data); int m = va_arg(ap, int), n = va_arg(ap, int); va_end(ap);
    __sync_fetch_and_add(&drv::tick, 1);
    if (op_data != (void *)g_case) bad("map operator called with foreign op_data");
    if (m < 0 || n < 0 || m >= g_src->d->lmt || n >= g_src->d->lnt) { bad(fmt("map operator called on tile (%d,%d) outside the tile grid", m, n)); return 0; }
    size_t ix = (size_t)m * g_src->d->lnt + n;
    __sync_fetch_and_add(&g_cnt[ix], 1);
    if (!g_src->tile[ix]) { bad(fmt("map operator called on rank %d for non-local tile (%d,%d)", drv::me, m, n)); return 0; }
    if (src != (const void *)g_src->tile[ix]) bad(fmt("map operator (%d,%d): src pointer %p, tile is at %p", m, n, src, (void *)g_src->tile[ix]));
    if (g_dst ? dst != (void *)g_dst->tile[ix] : dst != nullptr) bad(fmt("map operator (%d,%d): dest pointer %p, expected %p", m, n, dst, g_dst ? (void *)g_dst->tile[ix] : nullptr));
    const int64_t *p = (const int64_t *)src; int mb = g_src->d->mb, nb = g_src->d->nb;
    int64_t a = neutral(g_case->op);
    // only the elements inside the matrix (partial edge tiles hold padding)
    for (int j = 0; j < nb && (long)n * nb + j < g_ln; j++) for (int i = 0; i < mb && (long)m * mb + i < g_lm; i++) a = fold(g_case->op, a, p[(size_t)j * mb + i]);
    pthread_mutex_lock(&g_mx); g_acc = fold(g_case->op, g_acc, a); pthread_mutex_unlock(&g_mx);
    if (g_dst && dst == (void *)g_dst->tile[ix]) { int64_t *q = (int64_t *)dst; for (size_t e = 0; e < (size_t)mb * nb; e++) q[e] = p[e] * 3 + 1; }
    return 0;
}
static volatile long g_red_calls;
static int red_op(struct parsec_execution_stream_s *es, const void *src, void *dst, void *op_data, ...) {
    (void)es; (void)op_data;
    __sync_fetch_and_add(&drv::tick, 1); __sync_fetch_and_add(&g_red_calls, 1);
    const int64_t *p = (const int64_t *)src; int64_t *q = (int64_t *)dst; size_t ne = (size_t)g_src->d->mb * g_src->d->nb;
    if (p && q) for (size_t e = 0; e < ne; e++) q[e] = fold(g_case->op, q[e], p[e]);
    return 0;
}

static std::string missing_tiles() {
    if (!g_src || !g_case || (g_case->k != 'A' && g_case->k != 'M')) return "";
    std::string s; int n = 0, nt = g_src->d->lnt;
    for (size_t ix = 0; ix < g_cnt.size() && n < 6; ix++) {
        int m = (int)(ix / nt), c = (int)(ix % nt);
        bool in = g_case->k == 'M' || g_case->uplo == 0 || (g_case->uplo == 1 ? c >= m : m >= c);
        if (in && g_src->tile[ix] && g_cnt[ix] == 0) { s += fmt(" [tile (%d,%d) not visited]", m, c); n++; }
    }
    return "; missing:" + s;
}

static bool load(const char *path) {
    std::ifstream fi(path); std::string line;
    while (std::getline(fi, line)) {
        if (line.empty() || line[0] == '#') continue;
        std::istringstream ls(line); std::string w; ls >> w;
        Case c; memset((void *)&c, 0, offsetof(Case, text)); c.kp = c.kq = 1; c.Prow = 1; c.nt = 1; c.NB = 1;
        if (w == "hdr") { ls >> hdrP >> hdrT; header = line + "\n"; continue; }
        else if (w == "A") ls >> c.uplo >> c.dist >> c.mt >> c.nt >> c.MB >> c.NB >> c.padm >> c.padn >> c.Prow >> c.kp >> c.kq;
        else if (w == "M") ls >> c.op >> c.dest >> c.mt >> c.nt >> c.MB >> c.NB >> c.padm >> c.padn >> c.Prow >> c.kp >> c.kq;
        else if (w == "C" || w == "W") ls >> c.op >> c.mt >> c.nt >> c.MB >> c.NB >> c.Prow;
        else if (w == "E") ls >> c.mt >> c.MB;
        else continue;
        if (ls.fail()) return false;
        c.k = w[0]; c.text = line + "\n"; cases.push_back(c);
    }
    return !header.empty();
}
static bool valid(const Case &c) {
    if (c.mt < 1 || c.nt < 1 || c.MB < 1 || c.NB < 1 || c.padm < 0 || c.padn < 0 || c.padm >= c.MB || c.padn >= c.NB) return false;
    if (c.Prow < 1 || drv::np % c.Prow || c.kp < 1 || c.kq < 1 || c.op < 0 || c.op > 2) return false;
    if (c.k == 'A') {
        if (c.uplo < 0 || c.uplo > 2 || c.dist < 0 || c.dist > 2) return false;
        if (c.dist != 0 && c.uplo == 0) return false;           // triangular storage: uplo must name the stored part
        if (c.dist == 2 && sbc_r(drv::np) < 0) return false;
        if (c.dist != 0 && (c.mt != c.nt || c.MB != c.NB || c.padm != c.padn)) return false;    // symmetric storage: square matrix
    }
    return true;
}

static void run_taskpool(parsec_context_t *parsec, parsec_taskpool_t *tp, const char *name, std::vector<std::string> &errs) {
    drv::Call call(name);
    int rc = parsec_context_add_taskpool(parsec, tp);
    if (rc) errs.push_back(fmt("parsec_context_add_taskpool rc=%d", rc));
    rc = parsec_context_start(parsec);  if (rc) errs.push_back(fmt("parsec_context_start rc=%d", rc));
    rc = parsec_context_wait(parsec);   if (rc) errs.push_back(fmt("parsec_context_wait rc=%d", rc));
}

int main(int argc, char **argv) {
    if (argc < 2 || !load(argv[1])) { fprintf(stderr, "usage: ops_driver <casefile>\n"); return 2; }
    int prov; MPI_Init_thread(&argc, &argv, MPI_THREAD_SERIALIZED, &prov);
    int pargc = 0; char **pargv = nullptr;
    parsec_context_t *parsec = parsec_init(hdrT, &pargc, &pargv);
    if (!parsec) MPI_Abort(MPI_COMM_WORLD, 2);
    drv::init(parsec);
    drv::detail = missing_tiles;
    if (drv::np != hdrP) { if (!drv::me) fprintf(stderr, "case file wants %d ranks\n", hdrP); MPI_Abort(MPI_COMM_WORLD, 2); }
    // warm-up outside the watchdog: the first start wakes the communication thread, which enables the engine
    // (a dozen MPI_Comm_dup collectives) -- seconds on a loaded machine, and not what a case is about
    parsec_context_start(parsec); parsec_context_wait(parsec); MPI_Barrier(drv::hc);
    int failed = 0;
    for (size_t ci = 0; ci < cases.size() && !failed; ci++) {
        const Case &c = cases[ci];
        if (!valid(c)) { if (!drv::me) vf::label("invalid_case_skipped"); continue; }
        drv::begin_case((int)ci, header + c.text);
        std::vector<std::string> errs;
        Mat S, D; g_src = &S; g_dst = nullptr; g_case = &c; g_bad = 0; g_acc = neutral(c.op); g_red_calls = 0;
        int lm = c.mt * c.MB - c.padm, ln = c.nt * c.NB - c.padn; g_lm = lm; g_ln = ln;
        if (c.k == 'A') {
            if (!mk(S, c.dist, c.uplo, c.MB, c.NB, lm, ln, c.Prow, c.kp, c.kq, "A")) errs.push_back("descriptor initialisation refused");
            else {
                fill(S, 0); g_cnt.assign(S.tile.size(), 0);
                MPI_Barrier(drv::hc);
                int rc;
                { drv::Call call("parsec_apply");
                  rc = parsec_apply(parsec, c.uplo == 0 ? PARSEC_MATRIX_FULL : c.uplo == 1 ? PARSEC_MATRIX_UPPER : PARSEC_MATRIX_LOWER, S.d, apply_op, (void *)&c); }
                if (rc != PARSEC_SUCCESS) errs.push_back(fmt("parsec_apply rc=%d", rc));
                long wrong = 0;
                for (int tm = 0; tm < c.mt; tm++) for (int tn = 0; tn < c.nt; tn++) {
                    size_t ix = (size_t)tm * c.nt + tn;
                    bool in = c.uplo == 0 || (c.uplo == 1 ? tn >= tm : tm >= tn);
                    int want = (in && S.tile[ix]) ? 1 : 0;
                    if (g_cnt[ix] != want && !wrong++) errs.push_back(fmt("operator ran %d times on tile (%d,%d), expected %d (%s the region, %s)", g_cnt[ix], tm, tn, want, in ? "inside" : "outside", S.tile[ix] ? "local" : "not local"));
                    if (S.tile[ix]) { int64_t *p = S.tile[ix]; long d = 0;
                        for (int j = 0; j < c.NB; j++) for (int i = 0; i < c.MB; i++) if (p[(size_t)j * c.MB + i] != val((long)tm * c.MB + i, (long)tn * c.NB + j) + want) d++;
                        if (d && !wrong++) errs.push_back(fmt("tile (%d,%d): %ld elements are not initial+%d", tm, tn, d, want)); }
                }
                if (wrong > 1) errs.push_back(fmt("%ld tiles wrong on this rank", wrong));
            }
        } else if (c.k == 'M') {
            bool ok = mk(S, 0, 0, c.MB, c.NB, lm, ln, c.Prow, c.kp, c.kq, "S");
            if (ok && c.dest) { ok = mk(D, 0, 0, c.MB, c.NB, lm, ln, c.Prow, c.kp, c.kq, "D"); g_dst = &D; }
            if (!ok) errs.push_back("descriptor initialisation refused");
            else {
                fill(S, 0); if (c.dest) fill(D, 7); g_cnt.assign(S.tile.size(), 0);
                MPI_Barrier(drv::hc);
                parsec_taskpool_t *tp = parsec_map_operator_New(S.d, c.dest ? D.d : nullptr, map_op, (void *)&c);
                if (!tp) errs.push_back("parsec_map_operator_New returned NULL");
                else { run_taskpool(parsec, tp, "parsec_map_operator taskpool", errs); parsec_taskpool_free(tp); }
                long wrong = 0;
                for (int tm = 0; tm < c.mt; tm++) for (int tn = 0; tn < c.nt; tn++) {
                    size_t ix = (size_t)tm * c.nt + tn; int want = S.tile[ix] ? 1 : 0;
                    if (g_cnt[ix] != want && !wrong++) errs.push_back(fmt("map operator ran %d times on tile (%d,%d), expected %d", g_cnt[ix], tm, tn, want));
                    if (S.tile[ix]) { long d = 0, e = 0;
                        for (int j = 0; j < c.NB; j++) for (int i = 0; i < c.MB; i++) { int64_t v = val((long)tm * c.MB + i, (long)tn * c.NB + j);
                            if (S.tile[ix][(size_t)j * c.MB + i] != v) d++;
                            if (c.dest && D.tile[ix][(size_t)j * c.MB + i] != v * 3 + 1) e++; }
                        if (d && !wrong++) errs.push_back(fmt("source tile (%d,%d) modified (%ld elements)", tm, tn, d));
                        if (e && !wrong++) errs.push_back(fmt("dest tile (%d,%d): %ld elements are not the image of the source tile", tm, tn, e)); }
                }
                // fold of all elements of the matrix, combined over ranks, against the sequential fold
                int64_t all = 0, seq = neutral(c.op);
                MPI_Allreduce(&g_acc, &all, 1, MPI_INT64_T, c.op == 0 ? MPI_SUM : c.op == 1 ? MPI_BXOR : MPI_MAX, drv::hc);
                for (long i = 0; i < lm; i++) for (long j = 0; j < ln; j++) seq = fold(c.op, seq, val(i, j));
                if (all != seq) errs.push_back(fmt("fold (%s) over all tiles = %ld, sequential fold = %ld", c.op == 0 ? "sum" : c.op == 1 ? "xor" : "max", (long)all, (long)seq));
            }
        } else if (c.k == 'C' || c.k == 'W') {
            // src mt x nt tiles; dest: one row (reduce_col) / one column (reduce_row) of tiles
            bool col = c.k == 'C';
            bool ok = mk(S, 0, 0, c.MB, c.NB, lm, ln, c.Prow, 1, 1, "S") && mk(D, 0, 0, c.MB, c.NB, col ? c.MB : lm, col ? ln : c.NB, 1, 1, 1, "D");
            if (!ok) errs.push_back("descriptor initialisation refused");
            else {
                fill(S, 0); fill(D, 0); g_cnt.assign(S.tile.size(), 0);
                MPI_Barrier(drv::hc);
                parsec_taskpool_t *tp = col ? parsec_reduce_col_New(S.d, D.d, red_op, (void *)&c) : parsec_reduce_row_New(S.d, D.d, red_op, (void *)&c);
                if (!tp) errs.push_back("reduce _New returned NULL");
                else { run_taskpool(parsec, tp, col ? "parsec_reduce_col taskpool" : "parsec_reduce_row taskpool", errs); parsec_taskpool_free(tp); }
                long calls = 0, mine = g_red_calls;
                MPI_Allreduce(&mine, &calls, 1, MPI_LONG, MPI_SUM, drv::hc);
                long want = col ? (long)(c.mt - 1) * c.nt : (long)c.mt * (c.nt - 1);
                if (calls != want) errs.push_back(fmt("reduction operator invoked %ld times in total, %ld combinations are needed to fold every tile once", calls, want));
                // result tiles against the sequential fold
                for (int t = 0; t < (col ? c.nt : c.mt); t++) { size_t ix = col ? (size_t)t : (size_t)t; int64_t *p = D.tile[col ? (size_t)0 * D.d->lnt + t : (size_t)t * D.d->lnt + 0]; (void)ix; if (!p) continue;
                    long d = 0;
                    for (int j = 0; j < c.NB; j++) for (int i = 0; i < c.MB; i++) { int64_t seq = neutral(c.op);
                        for (int u = 0; u < (col ? c.mt : c.nt); u++) seq = fold(c.op, seq, col ? val((long)u * c.MB + i, (long)t * c.NB + j) : val((long)t * c.MB + i, (long)u * c.NB + j));
                        if (p[(size_t)j * c.MB + i] != seq) d++; }
                    if (d) { errs.push_back(fmt("result tile %d: %ld elements differ from the sequential fold", t, d)); break; } }
            }
        } else if (c.k == 'E') {
            // exactly the usage of tests/collections/reduce.c: column of mt tiles of MB floats, reduced into itself
            parsec_matrix_block_cyclic_t A;
            parsec_matrix_block_cyclic_init(&A, PARSEC_MATRIX_FLOAT, PARSEC_MATRIX_TILE, drv::me, c.MB, 1, c.mt * c.MB, 1, 0, 0, c.mt * c.MB, 1, 1, drv::np, 1, 1, 0, 0);
            A.mat = parsec_data_allocate((size_t)A.super.nb_local_tiles * A.super.bsiz * sizeof(float) + 1);
            parsec_data_collection_set_key(&A.super.super, "A");
            parsec_taskpool_t *tp = (parsec_taskpool_t *)parsec_reduce_new(&A.super, &A.super, NULL);
            parsec_datatype_t nt_; parsec_type_create_contiguous(c.MB, parsec_datatype_float_t, &nt_);
            parsec_arena_datatype_set_type(&((parsec_reduce_taskpool_t *)tp)->arenas_datatypes[PARSEC_reduce_DEFAULT_ADT_IDX], c.MB * sizeof(float), PARSEC_ARENA_ALIGNMENT_SSE, nt_);
            run_taskpool(parsec, tp, "parsec_reduce taskpool", errs);
            PARSEC_OBJ_DESTRUCT(&((parsec_reduce_taskpool_t *)tp)->arenas_datatypes[PARSEC_reduce_DEFAULT_ADT_IDX]);
            parsec_taskpool_free(tp); parsec_type_free(&nt_);
            parsec_data_free(A.mat); parsec_tiled_matrix_destroy(&A.super);
        }
        if (g_bad) errs.push_back(g_badmsg);
        rm(D); rm(S); g_src = nullptr; g_dst = nullptr;
        std::string all;
        int nf = drv::merge(errs, all);
        if (!drv::me) {
            vf::label(fmt("kind:%c", c.k));
            if (c.k == 'A') { vf::label(fmt("apply:uplo=%s", c.uplo == 0 ? "full" : c.uplo == 1 ? "upper" : "lower")); vf::label(fmt("apply:dist=%s", c.dist == 0 ? "2dbc" : c.dist == 1 ? "sym2dbc" : "sbc")); }
            if (c.k == 'M') { vf::label(fmt("map:op=%s", c.op == 0 ? "sum" : c.op == 1 ? "xor" : "max")); vf::label(c.dest ? "map:with_dest" : "map:dest_null"); }
            if (c.mt != c.nt) vf::label("non_square_tile_grid"); if (c.mt == 1 || c.nt == 1) vf::label("single_tile_row_or_col");
            if (c.mt * c.nt < drv::np) vf::label("fewer_tiles_than_ranks"); if (c.padm || c.padn) vf::label("partial_edge_tiles");
            vf::label(fmt("P=%d,threads=%d", drv::np, hdrT));
            bool nontriv = c.mt != c.nt && (c.k != 'A' || c.uplo != 0) && (drv::np >= 2 || hdrT >= 2);
            vf::note_case(header + c.text, nontriv);
            if (nf) { vf::record_failure(header + c.text, all.substr(0, 1500)); failed = 1; }
        }
        MPI_Bcast(&failed, 1, MPI_INT, 0, drv::hc);
    }
    if (!drv::me) vf::dump();
    MPI_Barrier(drv::hc);
    drv::fini(parsec);
    { drv::Call call("parsec_fini"); parsec_fini(&parsec); }
    MPI_Finalize();
    return failed && !drv::me ? 1 : 0;
}
