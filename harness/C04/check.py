"""C04 -- DTD never runs conflicting accesses at the same time (engine E6, shared with harness/C03)."""
import importlib.util
import os
import sys

from vf import core

sys.path.insert(0, os.path.join(core.VERIF, "harness", "C03"))
import dtdgen as g  # noqa: E402

_spec = importlib.util.spec_from_file_location("check_C03_shared", os.path.join(core.VERIF, "harness", "C03", "check.py"))
c03 = importlib.util.module_from_spec(_spec)
_spec.loader.exec_module(c03)

PROP = "C04"
WHICH = {"exclusion"}
RULE = ("case = one DTD insertion script biased to many readers between writers on 1..3 tiles, bodies spinning 0..2000 "
        "iterations while re-checking per-tile reader/writer occupancy counters (__atomic), run on 4..16 threads under a generated "
        "scheduler; oracle = a writer body sees no other reader/writer of its tiles from entry to exit, a reader body sees no "
        "writer, no input value changes under a reader, and by global sequence stamps every writer starts after all earlier "
        "accesses of the tile finished and every reader after all earlier writers; every task ran exactly once; non-trivial = "
        "some tile has writer, >= 2 readers, writer in insertion order AND threads >= 4 AND two readers of one tile were observed "
        "inside their bodies at the same time; distinct = distinct script texts")
FLOOR_QUICK = 60


def _build():
    return g.build_driver()


def run(tier, seed, res):
    drv = _build()
    quick = tier == "quick"
    res.rule = RULE
    res.assumptions = ["same script preconditions and exclusions as C03 (see evidence/C03.json assumptions)",
                       "single process: occupancy counters and stamps are per process; cross-rank copies are covered by C03/C17 values"]
    n = 1600 if quick else 15000
    per = 20 if quick else 50
    stats = {}
    scripts = g.generate(g.scripts("c04", stats=stats), n, seed)
    nb = (n + per - 1) // per
    cfgs = g.generate(g.proc_cfgs(ranks=1, tmin=4, tmax=16), nb, seed * 131 + 7)
    batches = [(dict(cfgs[i % len(cfgs)], tq=5 if quick else 20), scripts[i::nb]) for i in range(nb)]      # the configuration space is finite: generate() may return fewer than nb distinct ones
    c03.execute(PROP, drv, batches, WHICH, res,
                lambda s, f, o: f["rbw"] >= 1 and o.cfg["threads"] >= 4 and o.facts.get("overlap", 0) > 0)
    res.coverage.update({"generator_" + k: v for k, v in stats.items()})
    if not g.SCHED_ALL:
        res.coverage["generator_excluded_schedulers"] = ",".join(g.LIVELOCK_SCHEDS)
    c03.regress(PROP, res, WHICH)
    if quick and res.distinct_nontrivial < FLOOR_QUICK and not res.violations:
        res.inconclusive = "only %d non-trivial scripts (floor %d): readers did not overlap often enough" % (res.distinct_nontrivial, FLOOR_QUICK)


def replay(path):
    return g.replay_file(path, WHICH, tries=3)
