"""C14 -- communication engine: active messages exactly once and intact, put/get move exactly the registered bytes.

Hypothesis generates (engine configuration, plans); every configuration is one `mpiexec -n P` run of
harness/C14/ce_driver.cc executing all its plans (the engine state -- window rotation, MPI tag counter -- carries over
from plan to plan).  The driver is the single user of parsec_ce on each rank (context never started) and self-checks.
"""
import os

from hypothesis import strategies as st

from vf import core
import mpibatch as mb

PROP = "C14"
RULE = ("case = (engine configuration: ranks P, am_posted/am_tested/dynamic/dynamic_recv request counts, 1..3 tags with "
        "generated maximal lengths; plan: list of send_am(src,dst,tag,len) / put / get (0..4 MiB, local displacement, "
        "remote-callback payload size, put optionally issued from inside an AM callback) / progress() steps), identical "
        "on all ranks; oracle: exact multiset of (src, tag, op id, length, bytes) delivered exactly once, put/get target "
        "region == source region, guard bytes and source untouched, each completion callback once with the arguments "
        "passed, put target sees exactly `size` bytes; non-trivial = some rank is involved in more one-sided operations "
        "than dynamic_requests AND one progress() call delivered more AMs on one tag than its posted pool (measured); "
        "distinct = distinct (configuration, plan) texts")
ASSUME = [
    "tags are registered before the first enable(): the AM request arrays are only rebuilt inside the first enable() "
    "(the comment in mpi_no_thread_tag_register promises a rebuild at the next progress cycle, which does not exist)",
    "send_am is a blocking MPI_Send: AMs above 1 KiB (rendezvous in Open MPI/vader) only flow along a generated total order "
    "of the ranks, so that two ranks never block in send_am on each other with exhausted receive pools",
    "put() is only called when can_serve() is true (caller protocol of remote_dep_mpi.c; mpi_no_thread_put asserts it); "
    "otherwise the driver queues it and retries after progress(), like dep_put_fifo",
    "remote displacement is 0 and both sides register the same byte count (the engine ignores rdispl and size: the "
    "transfer is (count, datatype) of the two registrations) -- as all callers in /repo do",
    "no message to self; remote completion callback of a get: the `src` argument is not checked (it is the MPI_SOURCE "
    "of a completed *send* status, i.e. undefined)",
    "by default a plan never moves data X->Y with both put(X->Y) and get(Y<-X): finding C14-F1 (MPI tag clash); "
    "C14_ALLOW_PUTGET_CLASH=1 lifts the exclusion",
    "by default, when dynamic_recv_requests == dynamic_requests, gets only go 'upwards' in a generated rank order (no two "
    "ranks get from each other): finding C14-F2 (send starvation deadlock); C14_ALLOW_CROSS_GET_STARVATION=1 lifts it",
]

TAGLENS = [1, 16, 17, 64, 100, 1000, 1024, 1025, 4096, 4097, 20000, 65536]
OS_SIZES = [0, 0, 1, 2, 7, 8, 9, 100, 4095, 4096, 4097, 32767, 32768, 32769, 65536, 65537, 1 << 20, (1 << 20) + 1, 4 << 20]


def _build():
    return core.build_harness("C14/ce_driver", ["harness/C14/ce_driver.cc"], tree="hooks",
                              extra_cflags=["-DOMPI_SKIP_MPICXX", "-DMPICH_SKIP_MPICXX"])


# ------------------------------------------------------------------------------------------------ generation

@st.composite
def config(draw, ranks):
    P = draw(st.sampled_from(ranks))
    posted = draw(st.sampled_from([1, 1, 2, 2, 3, 4, 6]))
    tested = draw(st.integers(1, posted))
    dyn = draw(st.sampled_from([1, 1, 2, 2, 3, 4, 8, 30]))
    dynrecv = draw(st.integers(1, dyn))
    ntags = draw(st.integers(1, 3))
    lens = [draw(st.sampled_from(TAGLENS) | st.integers(1, 70000)) for _ in range(ntags)]
    return dict(P=P, posted=posted, tested=tested, dyn=dyn, dynrecv=dynrecv, tagub=-1, lens=lens)


AM_LENS = [0, 1, 15, 16, 17, 40, 1024, 1025]
RAW_OP = st.tuples(st.sampled_from("AAAAAAPPPGGWW"), st.integers(0, 3), st.integers(0, 2), st.integers(0, 11),
                   st.integers(0, 70000), st.integers(0, 39), st.integers(0, 6), st.integers(0, 5), st.integers(0, 3))


@st.composite
def plan(draw, cfg, max_ops, byte_budget, allow_clash, allow_starve):
    """One plan.  The raw material is one Hypothesis draw (list of integer tuples); the tuple fields index the tables."""
    P = cfg["P"]
    order = draw(st.permutations(list(range(P))))
    pos = {r: i for i, r in enumerate(order)}
    # data direction X->Y is served either by put(X->Y) or by get(Y<-X) within one plan (C14-F1) unless allowed
    modes = draw(st.lists(st.sampled_from("PG"), min_size=P * P, max_size=P * P))
    mode = {(x, y): modes[x * P + y] for x in range(P) for y in range(P) if x != y}
    nops = draw(st.integers(1, max_ops))
    raw = draw(st.lists(RAW_OP, min_size=nops, max_size=nops))
    ops, budget, excluded, excl2 = [], byte_budget, 0, 0
    ordered_gets = (not allow_starve) and cfg["dynrecv"] >= cfg["dyn"]
    for kind, ra, rb, sel, free, ssel, dsel, csel, n in raw:
        a = ra % P
        b = rb % (P - 1)
        b = b + 1 if b >= a else b
        if kind == "A":
            t = sel % len(cfg["lens"])
            mx = cfg["lens"][t]
            cand = AM_LENS + [mx - 1, mx, mx, free % (mx + 1)]
            ln = max(0, min(cand[ssel % len(cand)], mx))
            if ln > 1024 and pos[a] > pos[b]:
                a, b = b, a
            ops.append("A %d %d %d %d" % (a, b, t, ln))
        elif kind in "PG":
            size = (OS_SIZES + [free] * 8)[ssel % (len(OS_SIZES) + 8)]
            size = min(size, max(budget, 0))
            budget -= size
            ldispl = [0, 0, 0, 1, 8, 64, 4096][dsel]
            rcb = [8, 8, 16, 24, 100, 1000][csel]
            # a = data source, b = data sink
            k = kind
            if not allow_clash and mode[(a, b)] != kind:
                k = mode[(a, b)]
                excluded += 1
            if k == "G" and ordered_gets and pos[b] < pos[a]:        # C14-F2: gets only "upwards" in the rank order
                a, b = b, a
                excl2 += 1
                if not allow_clash:
                    k = mode[(a, b)]
            if k == "P":
                ops.append("P %d %d %d %d %d %d" % (a, b, size, ldispl, rcb, n & 1))
            else:
                ops.append("G %d %d %d %d %d" % (b, a, size, ldispl, rcb))      # origin b gets from a
        else:
            ops.append("W %d %d" % (a, n + 1))
    return "plan %d\n%s\n" % (len(ops), "\n".join(ops)), excluded, excl2


def header(cfg):
    return "cfg %d %d %d %d %d %d %d %s\n" % (cfg["P"], cfg["posted"], cfg["tested"], cfg["dyn"], cfg["dynrecv"], cfg["tagub"],
                                              len(cfg["lens"]), " ".join(str(x) for x in cfg["lens"]))


def _P_of(text):
    for l in text.splitlines():
        if l.startswith("cfg "):
            return int(l.split()[1])
    raise ValueError("no cfg line")


# ------------------------------------------------------------------------------------------------ run

def run(tier, seed, res):
    b = _build()
    quick = tier == "quick"
    res.rule = RULE
    res.assumptions = ASSUME
    allow = os.environ.get("C14_ALLOW_PUTGET_CLASH", "") == "1"
    nb, nplans, max_ops, budget, ranks = (10, 24, 60, 6 << 20, [2, 2, 3]) if quick else (60, 40, 120, 24 << 20, [2, 2, 3, 3, 4])
    starve = os.environ.get("C14_ALLOW_CROSS_GET_STARVATION", "") == "1"
    cfgs = mb.generate(config(ranks), nb, seed)
    batches, excluded, excl2 = [], 0, 0
    for i, cfg in enumerate(cfgs):
        plans = mb.generate(plan(cfg, max_ops, budget, allow, starve), nplans, seed * 1000 + i)
        excluded += sum(p[1] for p in plans)
        excl2 += sum(p[2] for p in plans)
        batches.append(mb.Batch(cfg["P"], header(cfg), [p[0] for p in plans], tag="P%d" % cfg["P"]))
    res.coverage["excluded_by_construction:C14-F1_put_and_get_same_direction(ops rewritten)"] = excluded
    res.coverage["excluded_by_construction:C14-F2_cross_gets_with_dynrecv_eq_dyn(ops rewritten)"] = excl2
    # regression / finding replays first (seconds)
    bg = mb.in_background(_regress, b, res)
    mb.run_batches(PROP, b, batches, res, "plans", timeout=240 if quick else 1500, max_parallel=5 if quick else 5,
                   tq_ms=5000 if quick else 20000, shrink=mb.shrink_lines)
    bg.join()
    floor = 20 if quick else 400
    if not res.violations and res.distinct_nontrivial < floor:
        res.inconclusive = "only %d non-trivial plans executed (floor %d)" % (res.distinct_nontrivial, floor)


def _regress(b, res):
    d = os.path.join(core.VERIF, "corpus", PROP, "regress")
    known = {f.get("id"): f for f in core.known_for(PROP)}
    for name in sorted(os.listdir(d)) if os.path.isdir(d) else []:
        text = open(os.path.join(d, name)).read()
        expect_fail = "# EXPECT: violation" in text
        stt, msg = mb.run_solo(PROP, b, _P_of(text), text)
        lab = res.coverage.setdefault("labels", {})
        lab["regress:%s:%s" % (name, stt)] = 1
        if expect_fail:
            # a documented finding (excluded from generation by construction): record whether it still reproduces
            fid = ([l.split(":", 1)[1].strip() for l in text.splitlines() if l.startswith("# FINDING:")] or [name])[0]
            if stt in ("fail", "crash", "hang"):
                if fid in known:
                    res.known.append("%s reproduced by corpus/%s/regress/%s" % (fid, PROP, name))
                else:
                    res.coverage.setdefault("open_findings_reproduced", []).append("%s (corpus/%s/regress/%s): %s" % (fid, PROP, name, msg[:200]))
        elif stt != "pass":
            res.violations.append(core.Violation("regression case %s: %s %s" % (name, stt, msg), replay_path=os.path.join(d, name)))


def replay(path):
    b = _build()
    text = open(path).read()
    last = ("pass", "")
    for _ in range(3):
        stt, msg = mb.run_solo(PROP, b, _P_of(text), text)
        if stt in ("fail", "crash"):
            return False, "%s: %s" % (stt, msg)
        if stt == "hang":
            last = (stt, msg)
            continue
        if stt == "timeout":
            return True, "inconclusive: timeout"
        return True, "pass"
    return False, "quiescent-incomplete in 3 of 3 replays: " + last[1]
