// C14 -- communication engine: every active message delivered exactly once and intact, every put/get moves
// exactly the registered bytes.  MPI driver: each rank calls parsec_init, never starts the context (PaRSEC's
// communication thread stays parked), and drives parsec_ce from its main thread.
//
// Input: a case file (written by check.py or a replay file):
//   cfg <P> <posted> <tested> <dyn> <dynrecv> <tagub> <ntags> <len0> [<len1> <len2>]
//   plan <nops>
//   A <src> <dst> <tagidx> <len>                  send_am
//   P <org> <tgt> <size> <ldispl> <rcb> <via>     put  (via=1: issued from inside an AM callback, as remote_dep does)
//   G <org> <tgt> <size> <ldispl> <rcb>           get
//   W <rank> <n>                                  rank calls progress() n times
//   (repeated "plan" blocks; all ranks read the same file)
// Output: rank 0 writes $VF_OUT (vf::dump), $VF_OUT.fail/.failmsg for a failing plan; the watchdog of any rank
// writes $VF_OUT.hang and _exit(3)s when nothing moved for T_q while an expected event is missing.
#include <mpi.h>
#include <pthread.h>
#include <sched.h>
#include <unistd.h>
#include <time.h>
extern "C" {
#include "parsec.h"
#include "parsec/parsec_comm_engine.h"
#include "parsec/constants.h"
}
#include "vf.hpp"

#define GUARD 64
#define HDR 16

struct Op { char k; int a, b, tagidx; long size, ldispl; int rcb, via, n; };
struct Plan { std::vector<Op> ops; std::string text; };
struct Cfg { int P, posted, tested, dyn, dynrecv, tagub, ntags; long len[3]; std::string text; };

static Cfg cfg;
static std::vector<Plan> plans;
static int me, np;
static MPI_Comm hc;
static const int FREE_TAGS[] = {4, 7, 8, 9};     // user tags (PUT_END_TAG is unused by the runtime; 7..9 are DSL/spare)
static const int CTRL_TAG = 10;                  // harness control tag ("please put op k to me")
static int hsize;
static uintptr_t *peer_fn;                       // [rank*2+0] put remote cb, [rank*2+1] get remote cb

// ---------------------------------------------------------------- deterministic bytes
static inline uint64_t sm64(uint64_t &s) { uint64_t z = (s += 0x9E3779B97F4A7C15ULL); z = (z ^ (z >> 30)) * 0xBF58476D1CE4E5B9ULL; z = (z ^ (z >> 27)) * 0x94D049BB133111EBULL; return z ^ (z >> 31); }
static void fill(unsigned char *p, size_t n, uint64_t seed) {
    uint64_t s = seed; size_t i = 0;
    for (; i + 8 <= n; i += 8) { uint64_t v = sm64(s); memcpy(p + i, &v, 8); }
    if (i < n) { uint64_t v = sm64(s); memcpy(p + i, &v, n - i); }
}
static long differs(const unsigned char *p, size_t n, uint64_t seed) {   // first differing offset or -1
    uint64_t s = seed; size_t i = 0;
    for (; i + 8 <= n; i += 8) { uint64_t v = sm64(s); if (memcmp(p + i, &v, 8)) { for (int j = 0; j < 8; j++) if (p[i + j] != ((unsigned char *)&v)[j]) return (long)(i + j); } }
    if (i < n) { uint64_t v = sm64(s); for (size_t j = 0; i + j < n; j++) if (p[i + j] != ((unsigned char *)&v)[j]) return (long)(i + j); }
    return -1;
}
static long guard_bad(const unsigned char *p, size_t n, unsigned char pat) { for (size_t i = 0; i < n; i++) if (p[i] != pat) return (long)i; return -1; }

// ---------------------------------------------------------------- per-plan state
struct OS {                     // one-sided op state on this rank
    unsigned char *obuf = nullptr, *tbuf = nullptr;
    parsec_ce_mem_reg_handle_t oh = nullptr, th = nullptr;
    int lcb = 0, rcb = 0, trig = 0, issued = 0;
};
static int cur_plan = -1;
static Plan *PL;
static std::vector<OS> os;
static std::vector<int> am_got;                   // per op index: deliveries seen here
static std::map<std::tuple<int, int, long>, long> short_exp, short_got;   // (src, tagidx, len) for len < HDR
static unsigned char *hblob;                      // nops * 2 * hsize
static std::vector<std::string> errs;
static long ev_expected, ev_done;
static volatile long g_tick;
static volatile int g_armed;
static volatile int g_step = -1;                  // plan step being executed (for the hang report)
static std::vector<int> pending_put;              // harness-level fifo of puts waiting for can_serve
static long lab_burst, lab_canserve_false, lab_put_in_cb, lab_put_deferred;
static long burst_cnt[4];
static int in_progress_call;

static void err(const std::string &s) { if (errs.size() < 6) errs.push_back(s); }
static std::string fmt(const char *f, ...) { char b[600]; va_list ap; va_start(ap, f); vsnprintf(b, sizeof b, f, ap); va_end(ap); return b; }
static uint64_t seed_of(int plan, int op, int which) { return ((uint64_t)(plan + 1) << 40) ^ ((uint64_t)(op + 1) << 8) ^ (uint64_t)which; }
static void event() { ev_done++; g_tick++; }

static unsigned char *ldata(OS &s, const Op &o) { return s.obuf + GUARD + o.ldispl; }   // origin data region
static unsigned char *tdata(OS &s) { return s.tbuf + GUARD; }

// ---------------------------------------------------------------- callbacks
static int user_am_cb(parsec_comm_engine_t *ce, parsec_ce_tag_t tag, void *msg, size_t sz, int src, void *cbd) {
    (void)ce;
    int tagidx = (int)(intptr_t)cbd;
    if ((int)tag != FREE_TAGS[tagidx]) err(fmt("AM callback of tag index %d invoked with tag %d", tagidx, (int)tag));
    if (in_progress_call) burst_cnt[tagidx]++;
    g_tick++;
    if (sz < HDR) {
        uint64_t s = 0xABCDEF ^ ((uint64_t)src << 20) ^ ((uint64_t)tagidx << 16) ^ (uint64_t)sz ^ ((uint64_t)(cur_plan + 1) << 32);
        if (differs((unsigned char *)msg, sz, s) >= 0) err(fmt("short AM from %d on tag %d len %zu: bytes differ from every message that was sent", src, (int)tag, sz));
        auto key = std::make_tuple(src, tagidx, (long)sz);
        long g = ++short_got[key];
        if (g > short_exp[key]) err(fmt("unexpected/duplicate short AM from %d tag %d len %zu (got %ld, sent %ld)", src, (int)tag, sz, g, short_exp[key]));
        else event();
        return 1;
    }
    uint32_t h[4]; memcpy(h, msg, HDR);
    int opi = (int)h[1];
    if (h[0] != (0xC14C14u ^ (uint32_t)cur_plan) || opi < 0 || opi >= (int)PL->ops.size() || PL->ops[opi].k != 'A') {
        err(fmt("AM with unknown header (magic %x op %d len %zu) from %d on tag %d", h[0], opi, sz, src, (int)tag)); return 1; }
    const Op &o = PL->ops[opi];
    if (o.b != me) err(fmt("AM op %d addressed to rank %d delivered on rank %d", opi, o.b, me));
    if (o.a != src || (int)h[3] != src) err(fmt("AM op %d sent by %d reported as coming from %d", opi, o.a, src));
    if (o.tagidx != tagidx) err(fmt("AM op %d sent on tag index %d delivered to tag index %d", opi, o.tagidx, tagidx));
    if ((long)sz != o.size || (long)h[2] != o.size) err(fmt("AM op %d sent with %ld bytes delivered with %zu", opi, o.size, sz));
    else { long d = differs((unsigned char *)msg + HDR, sz - HDR, seed_of(cur_plan, opi, 0)); if (d >= 0) err(fmt("AM op %d (len %ld) payload differs at byte %ld", opi, o.size, d + HDR)); }
    if (++am_got[opi] > 1) err(fmt("AM op %d delivered %d times", opi, am_got[opi])); else event();
    return 1;
}

static int put_lcb(parsec_comm_engine_t *ce, parsec_ce_mem_reg_handle_t lreg, ptrdiff_t ldispl, parsec_ce_mem_reg_handle_t rreg,
                   ptrdiff_t rdispl, size_t size, int remote, void *cbd) {
    int opi = (int)(intptr_t)cbd - 1;
    if (opi < 0 || opi >= (int)PL->ops.size()) { err(fmt("one-sided local callback with unknown cb_data %p", cbd)); return 1; }
    const Op &o = PL->ops[opi]; OS &s = os[opi];
    if (lreg != s.oh) err(fmt("op %d local callback: lreg %p != registered handle %p", opi, lreg, s.oh));
    if (ldispl != o.ldispl || rdispl != 0) err(fmt("op %d local callback: displacements (%ld,%ld) != requested (%ld,0)", opi, (long)ldispl, (long)rdispl, o.ldispl));
    if (rreg != (parsec_ce_mem_reg_handle_t)(hblob + ((size_t)opi * 2 + 1) * hsize)) err(fmt("op %d local callback: rreg differs from the one passed", opi));
    if ((long)size != o.size) err(fmt("op %d local callback: size %zu != requested %ld", opi, size, o.size));
    if (remote != o.b) err(fmt("op %d local callback: remote %d != %d", opi, remote, o.b));
    if (++s.lcb > 1) err(fmt("op %d local completion callback fired %d times", opi, s.lcb)); else event();
    ce->mem_unregister(&lreg); s.oh = nullptr;      // as remote_dep_mpi_put_end_cb does
    return 1;
}

// remote completion ("mimic AM"): msg = copy of the r_cb_data the origin passed, msg_size = bytes of the data transfer
static int remote_cb_common(int is_put, parsec_ce_tag_t tag, void *msg, size_t sz, int src, void *cbd) {
    (void)tag;
    uint32_t h[2]; memcpy(h, msg, 8);
    int opi = (int)h[1];
    if (h[0] != (0xBEEF00u ^ (uint32_t)cur_plan) || opi < 0 || opi >= (int)PL->ops.size() || PL->ops[opi].k != (is_put ? 'P' : 'G')) {
        err(fmt("%s remote callback with unknown callback data (magic %x op %d)", is_put ? "put" : "get", h[0], opi)); return 1; }
    const Op &o = PL->ops[opi]; OS &s = os[opi];
    if (o.b != me) err(fmt("op %d remote callback on rank %d, target is %d", opi, me, o.b));
    if (is_put && src != o.a) err(fmt("op %d remote callback: source %d != origin %d", opi, src, o.a));
    if (differs((unsigned char *)msg + 8, o.rcb - 8, seed_of(cur_plan, opi, 7)) >= 0) err(fmt("op %d remote callback data (%d bytes) differ from what the origin passed", opi, o.rcb));
    if (is_put && (long)sz != o.size) err(fmt("put op %d: target received %zu bytes, requested %ld", opi, sz, o.size));
    if (!is_put && cbd != s.th) err(fmt("get op %d: remote callback cb_data %p is not the registered handle %p", opi, cbd, s.th));
    if (++s.rcb > 1) err(fmt("op %d remote completion callback fired %d times", opi, s.rcb)); else event();
    if (s.th) { parsec_ce.mem_unregister(&s.th); s.th = nullptr; }     // as remote_dep_mpi_get_end_cb does
    return 1;
}
static int put_rcb(parsec_comm_engine_t *ce, parsec_ce_tag_t tag, void *msg, size_t sz, int src, void *cbd) { (void)ce; return remote_cb_common(1, tag, msg, sz, src, cbd); }
static int get_rcb(parsec_comm_engine_t *ce, parsec_ce_tag_t tag, void *msg, size_t sz, int src, void *cbd) { (void)ce; return remote_cb_common(0, tag, msg, sz, src, cbd); }

static void issue_put(int opi) {
    const Op &o = PL->ops[opi]; OS &s = os[opi];
    std::vector<unsigned char> rd(o.rcb);
    uint32_t h[2] = {0xBEEF00u ^ (uint32_t)cur_plan, (uint32_t)opi}; memcpy(rd.data(), h, 8);
    fill(rd.data() + 8, o.rcb - 8, seed_of(cur_plan, opi, 7));
    s.issued = 1; g_tick++;
    parsec_ce.put(&parsec_ce, s.oh, o.ldispl, (parsec_ce_mem_reg_handle_t)(hblob + ((size_t)opi * 2 + 1) * hsize), 0, o.size, o.b,
                  put_lcb, (void *)(intptr_t)(opi + 1), (parsec_ce_tag_t)peer_fn[o.b * 2 + 0], rd.data(), o.rcb);
}
static void issue_get(int opi) {
    const Op &o = PL->ops[opi]; OS &s = os[opi];
    std::vector<unsigned char> rd(o.rcb);
    uint32_t h[2] = {0xBEEF00u ^ (uint32_t)cur_plan, (uint32_t)opi}; memcpy(rd.data(), h, 8);
    fill(rd.data() + 8, o.rcb - 8, seed_of(cur_plan, opi, 7));
    s.issued = 1; g_tick++;
    parsec_ce.get(&parsec_ce, s.oh, o.ldispl, (parsec_ce_mem_reg_handle_t)(hblob + ((size_t)opi * 2 + 1) * hsize), 0, o.size, o.b,
                  put_lcb, (void *)(intptr_t)(opi + 1), (parsec_ce_tag_t)peer_fn[o.b * 2 + 1], rd.data(), o.rcb);
}
// put with the caller protocol of remote_dep_mpi.c: only when can_serve(), otherwise queued and retried after progress
static void want_put(int opi, int from_cb) {
    if (parsec_ce.can_serve(&parsec_ce)) { if (from_cb) lab_put_in_cb++; issue_put(opi); }
    else { lab_canserve_false++; lab_put_deferred++; pending_put.push_back(opi); }
}
static int ctrl_am_cb(parsec_comm_engine_t *ce, parsec_ce_tag_t tag, void *msg, size_t sz, int src, void *cbd) {
    (void)ce; (void)tag; (void)cbd;
    uint32_t h[2];
    if (sz != 8) { err(fmt("control AM of %zu bytes", sz)); return 1; }
    memcpy(h, msg, 8);
    int opi = (int)h[1];
    if (h[0] != (0x7719u ^ (uint32_t)cur_plan) || opi < 0 || opi >= (int)PL->ops.size() || PL->ops[opi].k != 'P' || !PL->ops[opi].via || PL->ops[opi].a != me || PL->ops[opi].b != src) {
        err(fmt("control AM with unknown content (magic %x op %d) from %d", h[0], opi, src)); return 1; }
    if (++os[opi].trig > 1) { err(fmt("control AM for op %d delivered %d times", opi, os[opi].trig)); return 1; }
    event();
    want_put(opi, 1);
    return 1;
}

static int do_progress() {
    memset(burst_cnt, 0, sizeof burst_cnt);
    in_progress_call = 1;
    int r = parsec_ce.progress(&parsec_ce);
    in_progress_call = 0;
    for (int t = 0; t < cfg.ntags; t++) if (burst_cnt[t] > cfg.posted) lab_burst++;
    while (!pending_put.empty() && parsec_ce.can_serve(&parsec_ce)) { int k = pending_put.front(); pending_put.erase(pending_put.begin()); issue_put(k); r++; }
    return r;
}

// ---------------------------------------------------------------- what is missing (hang report / final check)
static std::string missing(int limit) {
    std::string m; int n = 0;
    for (size_t i = 0; i < PL->ops.size() && n < limit; i++) {
        const Op &o = PL->ops[i];
        if (o.k == 'A' && o.b == me && o.size >= HDR && am_got[i] < 1) { m += fmt(" [AM op %zu from %d tag#%d len %ld not delivered]", i, o.a, o.tagidx, o.size); n++; }
        if (o.k == 'P' || o.k == 'G') {
            if (o.a == me && os[i].lcb < 1) { m += fmt(" [%s op %zu size %ld to %d: local completion callback missing%s]", o.k == 'P' ? "put" : "get", i, o.size, o.b, os[i].issued ? "" : " (not yet issued)"); n++; }
            if (o.b == me && os[i].rcb < 1) { m += fmt(" [%s op %zu size %ld from %d: remote completion callback missing]", o.k == 'P' ? "put" : "get", i, o.size, o.a); n++; }
            if (o.k == 'P' && o.via && o.a == me && os[i].trig < 1) { m += fmt(" [control AM for op %zu from %d missing]", i, o.b); n++; }
        }
    }
    for (auto &kv : short_exp) if (short_got[kv.first] < kv.second && n < limit) { m += fmt(" [short AM src %d tag#%d len %ld: %ld of %ld delivered]", std::get<0>(kv.first), std::get<1>(kv.first), std::get<2>(kv.first), short_got[kv.first], kv.second); n++; }
    return m;
}

// ---------------------------------------------------------------- watchdog (DESIGN 4.1)
static double now_s() { struct timespec t; clock_gettime(CLOCK_MONOTONIC, &t); return t.tv_sec + 1e-9 * t.tv_nsec; }
static void *watchdog(void *) {
    double tq = vf::envl("VF_TQ_MS", 5000) / 1000.0;
    long last = -1; double tl = now_s();
    for (;;) {
        usleep(50000);
        if (!g_armed) { last = -1; tl = now_s(); continue; }
        long t = g_tick;
        if (t != last) { last = t; tl = now_s(); continue; }
        if (now_s() - tl < tq) continue;
        if (ev_done >= ev_expected) continue;          // nothing missing here: not a hang of this rank
        std::string m = missing(8);
        const char *p = vf::outpath();
        if (p) {
            FILE *f = fopen((std::string(p) + ".hang").c_str(), "w");
            if (f) {
                fprintf(f, "%d\nrank %d: no progress for %.1fs in plan %d (step %d of %zu), %ld of %ld expected events; missing:%s\n%s%s", cur_plan, me, tq, cur_plan, (int)g_step,
                        PL->ops.size(), ev_done, ev_expected, m.c_str(), cfg.text.c_str(), PL->text.c_str());
                fclose(f);
            }
        }
        fprintf(stderr, "C14 WATCHDOG rank %d plan %d: quiescent-incomplete:%s\n", me, cur_plan, m.c_str());
        _exit(3);
    }
    return nullptr;
}

// ---------------------------------------------------------------- one plan
static void run_plan(int pi) {
    cur_plan = pi; PL = &plans[pi];
    size_t n = PL->ops.size();
    os.assign(n, OS()); am_got.assign(n, 0); short_exp.clear(); short_got.clear(); errs.clear(); pending_put.clear();
    ev_expected = ev_done = 0; g_step = -1;
    hblob = (unsigned char *)calloc(n * 2 + 1, hsize);
    // expected events + buffers + registrations
    for (size_t i = 0; i < n; i++) {
        const Op &o = PL->ops[i]; OS &s = os[i];
        if (o.k == 'A' && o.b == me) {
            ev_expected++;
            if (o.size < HDR) short_exp[std::make_tuple(o.a, o.tagidx, o.size)]++;
        }
        if (o.k != 'P' && o.k != 'G') continue;
        size_t lreg_size = 0;
        if (o.a == me) {
            ev_expected += 1 + ((o.k == 'P' && o.via) ? 1 : 0);
            size_t len = GUARD + o.ldispl + o.size + GUARD;
            s.obuf = (unsigned char *)malloc(len);
            memset(s.obuf, 0xA5, len);
            fill(ldata(s, o), o.size, seed_of(pi, i, o.k == 'P' ? 1 : 3));    // put: the data; get: sentinel to be overwritten
            parsec_ce.mem_register(s.obuf + GUARD, PARSEC_MEM_TYPE_NONCONTIGUOUS, o.size, parsec_datatype_uint8_t, o.size, &s.oh, &lreg_size);
            memcpy(hblob + (i * 2 + 0) * hsize, s.oh, hsize);
        }
        if (o.b == me) {
            ev_expected++;
            size_t len = GUARD + o.size + GUARD;
            s.tbuf = (unsigned char *)malloc(len);
            memset(s.tbuf, 0x5A, len);
            fill(tdata(s), o.size, seed_of(pi, i, o.k == 'P' ? 2 : 1));       // put: sentinel; get: the data
            parsec_ce.mem_register(s.tbuf + GUARD, PARSEC_MEM_TYPE_NONCONTIGUOUS, o.size, parsec_datatype_uint8_t, o.size, &s.th, &lreg_size);
            memcpy(hblob + (i * 2 + 1) * hsize, s.th, hsize);
        }
    }
    // everybody learns every handle (what the GET_DATA message carries in the runtime)
    MPI_Allreduce(MPI_IN_PLACE, hblob, (int)(n * 2 * hsize), MPI_BYTE, MPI_BOR, hc);
    MPI_Barrier(hc);
    g_tick++; g_armed = 1;
    std::vector<unsigned char> buf;
    for (size_t i = 0; i < n; i++) {
        const Op &o = PL->ops[i];
        g_step = (int)i;
        switch (o.k) {
        case 'A':
            if (o.a != me) break;
            buf.resize(o.size ? o.size : 1);
            if (o.size < HDR) fill(buf.data(), o.size, 0xABCDEF ^ ((uint64_t)me << 20) ^ ((uint64_t)o.tagidx << 16) ^ (uint64_t)o.size ^ ((uint64_t)(pi + 1) << 32));
            else { uint32_t h[4] = {0xC14C14u ^ (uint32_t)pi, (uint32_t)i, (uint32_t)o.size, (uint32_t)me}; memcpy(buf.data(), h, HDR); fill(buf.data() + HDR, o.size - HDR, seed_of(pi, i, 0)); }
            parsec_ce.send_am(&parsec_ce, FREE_TAGS[o.tagidx], o.b, buf.data(), o.size);
            g_tick++;
            break;
        case 'P':
            if (o.via) {
                if (o.b == me) { uint32_t h[2] = {0x7719u ^ (uint32_t)pi, (uint32_t)i}; parsec_ce.send_am(&parsec_ce, CTRL_TAG, o.a, h, 8); g_tick++; }
            } else if (o.a == me) want_put(i, 0);
            break;
        case 'G':
            if (o.a == me) issue_get(i);
            break;
        case 'W':
            if (o.a == me) for (int j = 0; j < o.n; j++) do_progress();
            break;
        }
    }
    g_step = (int)n;
    // drain: progress until everything this rank expects happened, then until everybody is there
    while (ev_done < ev_expected) { if (0 == do_progress()) sched_yield(); }
    MPI_Request br; int flag = 0;
    MPI_Ibarrier(hc, &br);
    while (!flag) { do_progress(); MPI_Test(&br, &flag, MPI_STATUS_IGNORE); if (!flag) sched_yield(); }
    g_armed = 0;
    for (int j = 0; j < 3; j++) do_progress();          // late duplicates would show up here (or in the next plan)
    // ---- final oracle
    if (ev_done != ev_expected) err(fmt("event count %ld != expected %ld", ev_done, ev_expected));
    std::string m = missing(4);
    if (!m.empty()) err("missing after completion:" + m);
    if (!pending_put.empty()) err("puts still waiting for can_serve at the end");
    for (size_t i = 0; i < n; i++) {
        const Op &o = PL->ops[i]; OS &s = os[i];
        if (o.k != 'P' && o.k != 'G') continue;
        long d;
        if (o.a == me) {
            if ((d = guard_bad(s.obuf, GUARD + o.ldispl, 0xA5)) >= 0) err(fmt("op %zu (%c size %ld ldispl %ld): byte %ld before the origin region was overwritten", i, o.k, o.size, o.ldispl, d));
            if ((d = guard_bad(ldata(s, o) + o.size, GUARD, 0xA5)) >= 0) err(fmt("op %zu (%c size %ld): guard byte %ld after the origin region was overwritten", i, o.k, o.size, d));
            if ((d = differs(ldata(s, o), o.size, seed_of(pi, i, 1))) >= 0)
                err(o.k == 'P' ? fmt("put op %zu: origin buffer (size %ld) modified at byte %ld", i, o.size, d) : fmt("get op %zu from %d: local region (size %ld) differs from the remote source at byte %ld", i, o.b, o.size, d));
            if (s.oh) { parsec_ce.mem_unregister(&s.oh); s.oh = nullptr; }
        }
        if (o.b == me) {
            if ((d = guard_bad(s.tbuf, GUARD, 0x5A)) >= 0) err(fmt("op %zu (%c size %ld): guard byte %ld before the target region was overwritten", i, o.k, o.size, d));
            if ((d = guard_bad(tdata(s) + o.size, GUARD, 0x5A)) >= 0) err(fmt("op %zu (%c size %ld): guard byte %ld after the target region was overwritten", i, o.k, o.size, d));
            if ((d = differs(tdata(s), o.size, seed_of(pi, i, 1))) >= 0)
                err(o.k == 'P' ? fmt("put op %zu from %d: target region (size %ld) differs from the source at byte %ld", i, o.a, o.size, d) : fmt("get op %zu: remote source buffer (size %ld) modified at byte %ld", i, o.size, d));
            if (s.th) { parsec_ce.mem_unregister(&s.th); s.th = nullptr; }
        }
        free(s.obuf); free(s.tbuf);
    }
    free(hblob); hblob = nullptr;
}

// ---------------------------------------------------------------- input
static bool load(const char *path) {
    std::ifstream f(path); std::string line; Plan *cur = nullptr; bool have = false;
    while (std::getline(f, line)) {
        if (line.empty() || line[0] == '#') continue;
        std::istringstream ls(line); std::string w; ls >> w;
        if (w == "cfg") {
            ls >> cfg.P >> cfg.posted >> cfg.tested >> cfg.dyn >> cfg.dynrecv >> cfg.tagub >> cfg.ntags;
            for (int i = 0; i < cfg.ntags && i < 3; i++) ls >> cfg.len[i];
            cfg.text = line + "\n"; have = true;
        } else if (w == "plan") { plans.emplace_back(); cur = &plans.back(); cur->text = line + "\n"; }
        else if (cur && w.size() == 1) {
            Op o; memset(&o, 0, sizeof o); o.k = w[0];
            if (o.k == 'A') ls >> o.a >> o.b >> o.tagidx >> o.size;
            else if (o.k == 'P') ls >> o.a >> o.b >> o.size >> o.ldispl >> o.rcb >> o.via;
            else if (o.k == 'G') ls >> o.a >> o.b >> o.size >> o.ldispl >> o.rcb;
            else if (o.k == 'W') ls >> o.a >> o.n;
            else return false;
            if (ls.fail()) return false;
            cur->ops.push_back(o); cur->text += line + "\n";
        }
    }
    return have && cfg.ntags >= 1 && cfg.ntags <= 3;
}
static bool plan_valid(const Plan &p) {
    for (auto &o : p.ops) {
        if (o.a < 0 || o.a >= np) return false;
        if (o.k == 'W') continue;
        if (o.b < 0 || o.b >= np || o.a == o.b || o.size < 0) return false;
        if (o.k == 'A' && (o.tagidx < 0 || o.tagidx >= cfg.ntags || o.size > cfg.len[o.tagidx])) return false;
        if ((o.k == 'P' || o.k == 'G') && (o.rcb < 8 || o.rcb > 2048 || o.ldispl < 0 || o.size > (64L << 20))) return false;
    }
    return true;
}

int main(int argc, char **argv) {
    if (argc < 2 || !load(argv[1])) { fprintf(stderr, "usage: ce_driver <casefile>\n"); return 2; }
    char b[32];
    snprintf(b, sizeof b, "%d", cfg.posted);  setenv("PARSEC_MCA_runtime_comm_mpi_am_posted_requests", b, 1);
    snprintf(b, sizeof b, "%d", cfg.tested);  setenv("PARSEC_MCA_runtime_comm_mpi_am_tested_requests", b, 1);
    snprintf(b, sizeof b, "%d", cfg.dyn);     setenv("PARSEC_MCA_runtime_comm_mpi_dynamic_requests", b, 1);
    snprintf(b, sizeof b, "%d", cfg.dynrecv); setenv("PARSEC_MCA_runtime_comm_mpi_dynamic_recv_requests", b, 1);
    if (cfg.tagub > 0) { snprintf(b, sizeof b, "%d", cfg.tagub); setenv("PARSEC_MCA_mpi_tag_ub", b, 1); }
    int prov;
    MPI_Init_thread(&argc, &argv, MPI_THREAD_SERIALIZED, &prov);
    MPI_Comm_dup(MPI_COMM_WORLD, &hc);
    MPI_Comm_rank(hc, &me); MPI_Comm_size(hc, &np);
    if (np != cfg.P) { if (!me) fprintf(stderr, "case wants %d ranks, started with %d\n", cfg.P, np); MPI_Finalize(); return 2; }
    int pargc = 0; char **pargv = nullptr;
    parsec_context_t *parsec = parsec_init(1, &pargc, &pargv);
    if (!parsec) { fprintf(stderr, "parsec_init failed\n"); MPI_Abort(MPI_COMM_WORLD, 2); }
    // tags must be registered before the engine is enabled: the AM request arrays are only (re)built by the first enable()
    for (int t = 0; t < cfg.ntags; t++)
        if (PARSEC_SUCCESS != parsec_ce.tag_register(FREE_TAGS[t], user_am_cb, (void *)(intptr_t)t, cfg.len[t])) { fprintf(stderr, "tag %d is not free\n", FREE_TAGS[t]); MPI_Abort(MPI_COMM_WORLD, 2); }
    if (PARSEC_SUCCESS != parsec_ce.tag_register(CTRL_TAG, ctrl_am_cb, nullptr, 8)) { fprintf(stderr, "tag %d is not free\n", CTRL_TAG); MPI_Abort(MPI_COMM_WORLD, 2); }
    parsec_ce.enable(&parsec_ce);
    hsize = parsec_ce.get_mem_handle_size();
    peer_fn = (uintptr_t *)calloc(np * 2, sizeof(uintptr_t));
    uintptr_t mine[2] = {(uintptr_t)put_rcb, (uintptr_t)get_rcb};
    MPI_Allgather(mine, 2 * sizeof(uintptr_t), MPI_BYTE, peer_fn, 2 * sizeof(uintptr_t), MPI_BYTE, hc);
    pthread_t wd; pthread_create(&wd, nullptr, watchdog, nullptr);

    int failed = 0;
    for (size_t pi = 0; pi < plans.size() && !failed; pi++) {
        if (!plan_valid(plans[pi])) { if (!me) { fprintf(stderr, "plan %zu is outside the domain\n", pi); vf::label("invalid_plan"); } continue; }
        if (!me && vf::outpath()) { FILE *f = fopen((std::string(vf::outpath()) + ".pos").c_str(), "w"); if (f) { fprintf(f, "%zu\n", pi); fclose(f); } }
        lab_burst = lab_canserve_false = lab_put_in_cb = lab_put_deferred = 0;
        run_plan((int)pi);
        // merge verdicts and labels on rank 0
        long loc[5] = {(long)errs.size(), lab_burst, lab_canserve_false, lab_put_in_cb, lab_put_deferred}, glob[5];
        MPI_Allreduce(loc, glob, 5, MPI_LONG, MPI_SUM, hc);
        char mine_msg[700]; mine_msg[0] = 0;
        if (!errs.empty()) { std::string s = fmt("rank %d: ", me); for (auto &e : errs) s += e + "; "; snprintf(mine_msg, sizeof mine_msg, "%s", s.c_str()); }
        std::vector<char> all(me ? 0 : 700 * np);
        MPI_Gather(mine_msg, 700, MPI_CHAR, all.data(), 700, MPI_CHAR, 0, hc);
        if (!me) {
            const Plan &p = plans[pi];
            long na = 0, npn = 0, ng = 0, nw = 0, nvia = 0, big = 0, zero = 0, per_rank_os[8] = {0}, maxam = 0;
            for (auto &o : p.ops) {
                if (o.k == 'A') { na++; if (o.size > 1024) big++; if (o.size == 0) zero++; }
                if (o.k == 'P') { npn++; nvia += o.via; } if (o.k == 'G') ng++; if (o.k == 'W') nw++;
                if (o.k == 'P' || o.k == 'G') { per_rank_os[o.a]++; per_rank_os[o.b]++; if (o.size == 0) zero++; if (o.size >= (1 << 20)) vf::label("onesided_ge_1MiB"); }
            }
            (void)maxam;
            long mx = 0; for (int r = 0; r < np; r++) mx = std::max(mx, per_rank_os[r]);
            bool over_dyn = mx > cfg.dyn, burst = glob[1] > 0;
            vf::label(fmt("P=%d", np));
            if (na) vf::label("has_am"); if (npn) vf::label("has_put"); if (ng) vf::label("has_get"); if (npn && ng) vf::label("mixes_put_get");
            if (nvia) vf::label("put_from_am_callback_requested"); if (glob[3]) vf::label("put_issued_inside_am_callback");
            if (big) vf::label("am_gt_1KiB"); if (zero) vf::label("zero_length"); if (nw) vf::label("has_progress_steps");
            if (over_dyn) vf::label("onesided_per_rank_gt_dyn"); if (burst) vf::label("am_burst_gt_posted_pool");
            if (glob[2]) vf::label("can_serve_false_seen"); if (glob[4]) vf::label("put_deferred_by_caller_protocol");
            if (cfg.tested < cfg.posted) vf::label("tested_window_lt_posted"); if (cfg.dynrecv < cfg.dyn) vf::label("dynrecv_lt_dyn");
            vf::note_case(cfg.text + p.text, over_dyn && burst);
            if (glob[0]) {
                std::string msg; for (int r = 0; r < np; r++) if (all[700 * r]) msg += std::string(&all[700 * r]) + " ";
                vf::record_failure(cfg.text + p.text, msg.substr(0, 1500));
                failed = 1;
            }
        }
        MPI_Bcast(&failed, 1, MPI_INT, 0, hc);
    }
    if (!me) { vf::R().extra["plans_in_file"] = std::to_string(plans.size()); vf::dump(); }
    MPI_Barrier(hc);
    // The context was never started: parsec_fini would join a communication thread that was never woken up; leave
    // through MPI_Finalize only (the OS reclaims the rest).
    fflush(stdout); fflush(stderr);
    MPI_Finalize();
    _exit(failed && !me ? 1 : 0);
}
