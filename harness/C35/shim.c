/* C shim for C35: everything that touches parsec_task_t / inline ring code lives here (compiled as C with
 * BUILDING_PARSEC, exactly like the scheduler modules that use hbbuffers and heaps); the C++ harness sees
 * opaque pointers only. */
#include "parsec/parsec_config.h"
#include "parsec/parsec_internal.h"
#include "parsec/class/list_item.h"
#include "parsec/hbbuffer.h"
#include "parsec/maxheap.h"
#include <stdlib.h>
#include <string.h>

/* ---- tasks: harness-allocated parsec_task_t, only list item + priority are meaningful; id kept in locals[0] */
/* not inlined: keeps the compiler (UBSan object-size) from reasoning about the deliberately short allocation */
static __attribute__((noinline)) void *raw_alloc(size_t n) { void * volatile p = calloc(1, n); return p; }
void *shim_task_new(int prio, int id) {
    /* only the head of parsec_task_t (list item ... priority ... locals[0..1]) is allocated: ASan reports any access
     * of the buffer/heap code beyond the fields it is supposed to touch */
    parsec_task_t *t = (parsec_task_t *)raw_alloc(offsetof(parsec_task_t, locals) + 2 * sizeof(parsec_assignment_t));
    PARSEC_OBJ_CONSTRUCT(&t->super, parsec_list_item_t);
    PARSEC_LIST_ITEM_SINGLETON(&t->super);
    t->priority = prio;
    t->locals[0].value = id;
    t->locals[1].value = 0x5a5a5a5a;
    return t;
}
void shim_task_free(void *t) { free(t); }
int shim_task_prio(void *t) { return ((parsec_task_t *)t)->priority; }
int shim_task_id(void *t) { return ((parsec_task_t *)t)->locals[0].value; }
int shim_task_guard_ok(void *t) { return ((parsec_task_t *)t)->locals[1].value == 0x5a5a5a5a; }
void shim_task_singleton(void *t) { PARSEC_LIST_ITEM_SINGLETON((parsec_list_item_t *)t); }
void *shim_task_left(void *t) { return (void *)((parsec_task_t *)t)->super.list_prev; }
void *shim_task_right(void *t) { return (void *)((parsec_task_t *)t)->super.list_next; }
size_t shim_prio_off(void) { return parsec_execution_context_priority_comparator; }
size_t shim_heap_prio_off(void) { return offsetof(parsec_heap_t, priority); }

/* ---- rings, built with the functions the schedulers' callers use */
void *shim_ring_build(void **items, int n, int sorted, size_t off) {
    parsec_list_item_t *ring = NULL;
    for (int i = 0; i < n; i++) {
        parsec_list_item_t *it = (parsec_list_item_t *)items[i];
        PARSEC_LIST_ITEM_SINGLETON(it);
        if (sorted) ring = parsec_list_item_ring_push_sorted(ring, it, off);
        else if (NULL == ring) ring = it;
        else parsec_list_item_ring_push(ring, it);
    }
    return ring;
}
/* walk a ring: fills out[], returns the count, -1 when next/prev links are inconsistent or the ring exceeds max */
int shim_ring_walk(void *ring, void **out, int max) {
    parsec_list_item_t *first = (parsec_list_item_t *)ring, *it = first;
    int n = 0;
    if (NULL == first) return 0;
    do {
        parsec_list_item_t *nx = (parsec_list_item_t *)it->list_next;
        if (n >= max || NULL == nx) return -1;
        if ((parsec_list_item_t *)nx->list_prev != it) return -1;
        out[n++] = it;
        it = nx;
    } while (it != first);
    return n;
}

/* ---- hbbuffer */
void *shim_hbb_new(size_t size, size_t ideal, void (*fct)(void *, parsec_list_item_t *, int32_t), void *store) {
    return parsec_hbbuffer_new(size, ideal, fct, store);
}
void shim_hbb_free(void *b) { parsec_hbbuffer_destruct((parsec_hbbuffer_t *)b); }
void shim_hbb_push_all(void *b, void *ring, int distance) { parsec_hbbuffer_push_all((parsec_hbbuffer_t *)b, (parsec_list_item_t *)ring, distance); }
void shim_hbb_push_prio(void *b, void *ring, int distance) { parsec_hbbuffer_push_all_by_priority((parsec_hbbuffer_t *)b, (parsec_list_item_t *)ring, distance); }
void *shim_hbb_pop_best(void *b, size_t off) { return parsec_hbbuffer_pop_best((parsec_hbbuffer_t *)b, (off_t)off); }
size_t shim_hbb_size(void *b) { return ((parsec_hbbuffer_t *)b)->size; }
void *shim_hbb_item(void *b, size_t i) { return (void *)((parsec_hbbuffer_t *)b)->items[i]; }
int shim_hbb_is_empty(void *b) { return parsec_hbbuffer_is_empty((parsec_hbbuffer_t *)b); }
long long shim_hbb_occupancy(void *b) { return parsec_hbbuffer_approx_occupency((parsec_hbbuffer_t *)b); }
/* parent-store wrappers, as parsec_mca_sched_push_in_buffer_wrapper does */
void shim_push_in_buffer_wrapper(void *store, parsec_list_item_t *elt, int32_t distance) {
    parsec_hbbuffer_push_all((parsec_hbbuffer_t *)store, elt, distance);
}
void shim_push_in_buffer_prio_wrapper(void *store, parsec_list_item_t *elt, int32_t distance) {
    parsec_hbbuffer_push_all_by_priority((parsec_hbbuffer_t *)store, elt, distance);
}

/* ---- heaps */
void *shim_heap_create(void) { return heap_create(); }
void shim_heap_insert(void *h, void *t) { heap_insert((parsec_heap_t *)h, (parsec_task_t *)t); }
void *shim_heap_remove(void **h) { return heap_remove((parsec_heap_t **)h); }
void *shim_heap_split(void **h, void **nh) { return heap_split_and_steal((parsec_heap_t **)h, (parsec_heap_t **)nh); }
unsigned shim_heap_size(void *h) { return ((parsec_heap_t *)h)->size; }
int shim_heap_prio(void *h) { return (int)((parsec_heap_t *)h)->priority; }
void *shim_heap_top(void *h) { return ((parsec_heap_t *)h)->top; }
void *shim_heap_lnext(void *h) { return (void *)((parsec_heap_t *)h)->list_item.list_next; }
void *shim_heap_lprev(void *h) { return (void *)((parsec_heap_t *)h)->list_item.list_prev; }
void shim_heap_singleton(void *h) {
    ((parsec_heap_t *)h)->list_item.list_next = (parsec_list_item_t *)h;
    ((parsec_heap_t *)h)->list_item.list_prev = (parsec_list_item_t *)h;
}
