// Records the case under execution when the process dies inside the code under test (sanitizer report, failed
// PaRSEC assert), so that the driver gets a replay file instead of an anonymous crash.  One translation unit only.
#pragma once
#include <cassert>
#include <unistd.h>
#include <sanitizer/asan_interface.h>
#include <sanitizer/common_interface_defs.h>
#include "vf.hpp"
namespace crashnote {
inline std::string &current() { static std::string *s = new std::string(); return *s; }
inline std::string &report() { static std::string *s = new std::string(); return *s; }
inline void on_report(const char *r) {
    if (!report().empty() || !r) return;
    std::string t = r; size_t p = t.find("ERROR:");
    report() = t.substr(p == std::string::npos ? 0 : p, 700);
}
inline void on_death() {
    if (current().empty()) return;
    vf::record_failure(current(), "the process died inside the code under test while executing this case: " + (report().empty() ? std::string("(undefined-behaviour / abort report is in the worker log)") : report()));
    vf::dump();
}
inline void install() { __asan_set_error_report_callback(on_report); __sanitizer_set_death_callback(on_death); }
inline void set(const std::string &repr) { current() = repr; }
}
#ifndef CRASHNOTE_NO_ASSERT_HOOK
extern "C" void __assert_fail(const char *assertion, const char *file, unsigned int line, const char *function) noexcept {
    const char *b = strrchr(file, '/');
    std::string m = std::string("assert(") + assertion + ") failed at " + (b ? b + 1 : file) + ":" + std::to_string(line) + " in " + function;
    fprintf(stderr, "ASSERT: %s\n", m.c_str());
    if (!crashnote::current().empty()) { vf::record_failure(crashnote::current(), m); vf::dump(); _exit(1); }
    _exit(134);
}
#endif
