// C35 -- Task buffers and heaps keep every task and prefer the best.
//
// Two sequential model-based checkers sharing one concrete-operation text format, plus two concurrent no-loss parts.
//
//  buffer mode  "B <child size> <parent size> <parent wrapper 0=push_all 1=by_priority>"
//      PA d p1 p2 ..   parsec_hbbuffer_push_all(child, ring of new tasks with these priorities, distance d)
//      PP d p1 p2 ..   parsec_hbbuffer_push_all_by_priority(child, ring sorted by parsec_list_item_ring_push_sorted, d)
//      QA d p1 ..      push_all directly into the parent buffer
//      PC / PQ         pop_best(child) / pop_best(parent)
//    child -> parent hbbuffer -> harness sink (walks the ring it receives and checks its links)
//  heap mode    "H <parking buffer size>"
//      I h p1 p2 ..    heap_insert of new tasks into heap number h (h == number of heaps: heap_create first)
//      R h / S h       heap_remove / heap_split_and_steal on heap number h (indices taken modulo the forest size)
//      K h / U         park heap h in an hbbuffer of heaps (push_all) / pop_best with the heap priority offset
//  Oracles: conservation (every task exactly once in buffers U parent store U popped; every inserted task in exactly
//  one heap or returned once), quiescent pop_best returns a maximal-priority element (NULL iff empty), heap walked
//  after every op (order, size == node count == complete shape, priority == top's), remove/split return the top.
//
// Drivers: rc (words -> ops), exh (small scopes), conc (dsched: generated programs + schedule bytes, conservation),
// stress (real threads, conservation), replay.
#include <algorithm>
#include <atomic>
#include <climits>
#include <functional>
#include <mutex>
#include <set>
#include <thread>
#include "vf.hpp"
#include "crashnote.hpp"
#include "dsched.hpp"
#include <rapidcheck.h>

extern "C" {
void *shim_task_new(int prio, int id);
void shim_task_free(void *t);
int shim_task_prio(void *t);
int shim_task_id(void *t);
int shim_task_guard_ok(void *t);
void shim_task_singleton(void *t);
void *shim_task_left(void *t);
void *shim_task_right(void *t);
size_t shim_prio_off(void);
size_t shim_heap_prio_off(void);
void *shim_ring_build(void **items, int n, int sorted, size_t off);
int shim_ring_walk(void *ring, void **out, int max);
void *shim_hbb_new(size_t size, size_t ideal, void (*fct)(void *, void *, int32_t), void *store);
void shim_hbb_free(void *b);
void shim_hbb_push_all(void *b, void *ring, int distance);
void shim_hbb_push_prio(void *b, void *ring, int distance);
void *shim_hbb_pop_best(void *b, size_t off);
size_t shim_hbb_size(void *b);
void *shim_hbb_item(void *b, size_t i);
int shim_hbb_is_empty(void *b);
long long shim_hbb_occupancy(void *b);
void shim_push_in_buffer_wrapper(void *store, void *elt, int32_t distance);
void shim_push_in_buffer_prio_wrapper(void *store, void *elt, int32_t distance);
void *shim_heap_create(void);
void shim_heap_insert(void *h, void *t);
void *shim_heap_remove(void **h);
void *shim_heap_split(void **h, void **nh);
unsigned shim_heap_size(void *h);
int shim_heap_prio(void *h);
void *shim_heap_top(void *h);
void shim_heap_singleton(void *h);
}

typedef std::vector<long> Words;

struct COp { std::string k; int a = 0; std::vector<int> p; };

static std::string ops_text(const std::string &head, const std::vector<COp> &ops) {
    std::ostringstream o; o << head << "\n";
    for (auto &c : ops) {
        o << c.k;
        if (c.k != "PC" && c.k != "PQ" && c.k != "U") o << " " << c.a;
        for (int x : c.p) o << " " << x;
        o << "\n";
    }
    return o.str();
}

// ------------------------------------------------------------------------------------------------ sink
struct Sink {
    std::vector<void *> got; std::string err; int calls = 0; std::mutex mu; bool locked = false;
    static void push(void *store, void *elt, int32_t) {
        Sink *s = (Sink *)store;
        if (s->locked) s->mu.lock();
        s->calls++;
        static thread_local std::vector<void *> tmp; tmp.resize(4096);
        int n = shim_ring_walk(elt, tmp.data(), 4096);
        if (n <= 0) { if (s->err.empty()) s->err = "parent store received " + std::string(n == 0 ? "an empty ring" : "a ring with inconsistent next/prev links"); }
        else for (int i = 0; i < n; i++) s->got.push_back(tmp[i]);
        if (s->locked) s->mu.unlock();
    }
};

static std::vector<void *> items_of(void *b) {
    std::vector<void *> v; size_t n = shim_hbb_size(b);
    for (size_t i = 0; i < n; i++) { void *x = shim_hbb_item(b, i); if (x) v.push_back(x); }
    return v;
}

struct Outcome { std::string err, text; bool nontrivial = false; std::map<std::string, int> lab; int nheaps = 0; };

// ------------------------------------------------------------------------------------------------ buffer mode
struct BufRunner {
    int s1, s2, wrap;
    Sink sink; void *parent = nullptr, *child = nullptr;
    std::vector<void *> all; std::set<void *> popped;
    std::string err; std::map<std::string, int> lab;
    int overflow_parent = 0, overflow_sink = 0;
    size_t off = shim_prio_off();

    BufRunner(int a, int b, int w) : s1(a), s2(b), wrap(w) {
        parent = shim_hbb_new((size_t)s2, 1, Sink::push, &sink);
        child = shim_hbb_new((size_t)s1, 1, wrap ? shim_push_in_buffer_prio_wrapper : shim_push_in_buffer_wrapper, parent);
    }
    ~BufRunner() { shim_hbb_free(child); shim_hbb_free(parent); for (void *t : all) shim_task_free(t); }
    bool fail(const std::string &m) { if (err.empty()) err = m; return false; }

    // Conservation, incrementally: "in the top store" and "popped" are terminal states; every task that is not
    // terminal must sit in exactly one slot of child or parent, and no slot may hold a terminal or unknown task.
    std::vector<char> terminal; size_t sink_seen = 0, nterminal = 0; std::set<void *> known;
    bool make_terminal(void *t, const char *how) {
        if (!known.count(t)) return fail(std::string("a pointer that was never pushed was ") + how);
        int id = shim_task_id(t);
        if (terminal[(size_t)id]) return fail("task #" + std::to_string(id) + " was " + how + " although it had already left the buffers (held twice)");
        terminal[(size_t)id] = 1; nterminal++;
        return true;
    }
    bool conservation() {
        if (!sink.err.empty()) return fail(sink.err);
        terminal.resize(all.size(), 0);
        for (; sink_seen < sink.got.size(); sink_seen++) if (!make_terminal(sink.got[sink_seen], "handed to the parent store")) return false;
        std::vector<int> inbuf;
        for (void *b : {child, parent}) {
            std::vector<void *> it = items_of(b);
            for (void *t : it) {
                if (!known.count(t)) return fail("a buffer holds a pointer that was never pushed");
                int id = shim_task_id(t);
                if (terminal[(size_t)id]) return fail("task #" + std::to_string(id) + " is still in a buffer although it was popped or handed to the parent store (held twice)");
                if (!shim_task_guard_ok(t)) return fail("task memory overwritten");
                inbuf.push_back(id);
            }
            if ((it.size() == 0) != (shim_hbb_is_empty(b) != 0)) return fail("parsec_hbbuffer_is_empty disagrees with the slots");
            if ((long long)it.size() != shim_hbb_occupancy(b)) return fail("parsec_hbbuffer_approx_occupency disagrees with the slots when quiescent");
        }
        std::sort(inbuf.begin(), inbuf.end());
        for (size_t i = 1; i < inbuf.size(); i++) if (inbuf[i] == inbuf[i - 1]) return fail("task #" + std::to_string(inbuf[i]) + " is held in two slots");
        if (inbuf.size() + nterminal != all.size()) {
            std::vector<char> in(all.size(), 0); for (int id : inbuf) in[(size_t)id] = 1;
            for (size_t id = 0; id < all.size(); id++) if (!in[id] && !terminal[id])
                return fail("task #" + std::to_string(id) + " (priority " + std::to_string(shim_task_prio(all[id])) + ") is lost: neither in a buffer, nor in the parent store, nor popped");
        }
        return true;
    }

    bool push(void *b, bool sorted, int distance, const std::vector<int> &prios) {
        std::vector<void *> ts;
        for (int p : prios) { void *t = shim_task_new(p, (int)all.size()); all.push_back(t); ts.push_back(t); known.insert(t); }
        if (ts.empty()) return true;
        void *ring = shim_ring_build(ts.data(), (int)ts.size(), sorted, off);
        size_t cb = items_of(child).size(), pb = items_of(parent).size(), sb = sink.got.size();
        if (sorted) shim_hbb_push_prio(b, ring, distance); else shim_hbb_push_all(b, ring, distance);
        if (!conservation()) return false;
        size_t ca = items_of(child).size(), pa = items_of(parent).size(), sa = sink.got.size();
        bool to_parent = (b == child) && (pa + sa > pb + sb);
        if (to_parent) { overflow_parent++; lab["push_overflow_to_parent"]++; }
        if (sa > sb) { overflow_sink++; lab["push_reaches_top_store"]++; }
        if (distance == 0) {
            if (b == child && to_parent) lab[ca == (size_t)s1 ? "overflow_with_full_buffer" : "overflow_with_free_slot"]++;
            if (sorted && b == child && to_parent) {
                int minin = INT_MAX; for (void *t : items_of(child)) minin = std::min(minin, shim_task_prio(t));
                // everything that left the child by this push
                bool kept_best = true;
                std::set<void *> in; for (void *t : items_of(child)) in.insert(t);
                (void)cb;
                for (void *t : ts) if (!in.count(t) && shim_task_prio(t) > minin) kept_best = false;
                lab[kept_best ? "by_priority_kept_best" : "by_priority_kept_lower"]++;
            }
        } else lab["push_with_distance"]++;
        return true;
    }

    bool pop(void *b) {
        std::vector<void *> before = items_of(b);
        void *r = shim_hbb_pop_best(b, off);
        if (before.empty()) {
            if (r) return fail("pop_best on an empty buffer returned a task");
            lab["pop_empty"]++;
            return conservation();
        }
        if (!r) return fail("pop_best returned NULL although the buffer holds " + std::to_string(before.size()) + " tasks");
        if (std::find(before.begin(), before.end(), r) == before.end()) return fail("pop_best returned a task the buffer did not hold");
        int mx = INT_MIN, nmax = 0; for (void *t : before) mx = std::max(mx, shim_task_prio(t));
        for (void *t : before) nmax += shim_task_prio(t) == mx;
        if (shim_task_prio(r) != mx) return fail("quiescent pop_best returned priority " + std::to_string(shim_task_prio(r)) + " while the buffer holds priority " + std::to_string(mx));
        lab[nmax > 1 ? "pop_among_ties" : "pop_unique_max"]++;
        terminal.resize(all.size(), 0);
        if (!make_terminal(r, "popped")) return false;
        popped.insert(r);
        std::vector<void *> after = items_of(b);
        if (after.size() + 1 != before.size()) return fail("pop_best removed " + std::to_string((long)before.size() - (long)after.size()) + " tasks");
        return conservation();
    }

    bool apply(const COp &o) {
        if (o.k == "PA") return push(child, false, o.a, o.p);
        if (o.k == "PP") return push(child, true, o.a, o.p);
        if (o.k == "QA") return push(parent, false, o.a, o.p);
        if (o.k == "PC") return pop(child);
        if (o.k == "PQ") return pop(parent);
        return true;
    }
    bool finish() {
        // drain both buffers (each pop is checked against the maximum the quiescent buffer holds)
        for (void *b : {child, parent})
            while (!items_of(b).empty()) if (!pop(b)) return false;
        return conservation();
    }
};

static Outcome run_buffer(int s1, int s2, int wrap, const std::vector<COp> &ops) {
    Outcome out; BufRunner r(s1, s2, wrap);
    std::string head = "B " + std::to_string(s1) + " " + std::to_string(s2) + " " + std::to_string(wrap);
    out.text = ops_text(head, ops); crashnote::set(out.text);
    for (size_t i = 0; i < ops.size(); i++)
        if (!r.apply(ops[i])) { out.err = "op #" + std::to_string(i) + " (" + ops[i].k + "): " + r.err; break; }
    if (out.err.empty() && !r.finish()) out.err = "final drain: " + r.err;
    out.nontrivial = r.overflow_parent > 0;
    out.lab = r.lab;
    return out;
}

// ------------------------------------------------------------------------------------------------ heap mode
struct HeapRunner {
    int hs;
    Sink sink; void *park = nullptr;
    std::vector<void *> forest; std::vector<void *> all; std::set<void *> returned;
    std::string err; std::map<std::string, int> lab;
    std::map<void *, int> splits_of;    // heap -> number of splits in its ancestry
    int big_split_twice = 0;

    explicit HeapRunner(int h) : hs(h) { park = shim_hbb_new((size_t)hs, 1, Sink::push, &sink); }
    ~HeapRunner() {
        // heaps still alive are emptied through the library (heap_destroy happens inside remove); after a detected
        // failure the structure may be corrupt: leak instead
        std::vector<void *> hv; if (err.empty()) hv = forest; if (err.empty()) for (void *h : items_of(park)) hv.push_back(h);
        for (void *h : hv) { void *hh = h; int guard = 0; while (hh && guard++ < 100000) shim_heap_remove(&hh); }
        shim_hbb_free(park);
        for (void *t : all) shim_task_free(t);
    }
    bool fail(const std::string &m) { if (err.empty()) err = m; return false; }

    // walk one heap; pos = heap numbering (root 1)
    bool walk(void *t, unsigned long pos, int parent_prio, std::set<unsigned long> &posns, std::set<void *> &nodes, int depth) {
        if (!t) return true;
        if (depth > 40) return fail("heap deeper than 40 levels (cycle)");
        if (!nodes.insert(t).second) return fail("task #" + std::to_string(shim_task_id(t)) + " reachable twice inside a heap");
        if (shim_task_prio(t) > parent_prio) return fail("heap order violated: task #" + std::to_string(shim_task_id(t)) + " with priority " + std::to_string(shim_task_prio(t)) + " sits below priority " + std::to_string(parent_prio));
        posns.insert(pos);
        return walk(shim_task_left(t), 2 * pos, shim_task_prio(t), posns, nodes, depth + 1) &&
               walk(shim_task_right(t), 2 * pos + 1, shim_task_prio(t), posns, nodes, depth + 1);
    }
    // ids of the tasks each live heap held at its last walk; an operation re-walks only the heaps it touched and
    // compares with what the model says they must hold now
    std::map<void *, std::vector<int>> held;
    bool walk_heap(void *h, std::vector<int> *ids) {
        void *top = shim_heap_top(h);
        if (!top) return fail("a live heap has no top (it should have been destroyed)");
        std::set<unsigned long> posns; std::set<void *> nodes;
        if (!walk(top, 1, INT_MAX, posns, nodes, 0)) return false;
        unsigned sz = shim_heap_size(h);
        if (nodes.size() != sz) return fail("heap->size = " + std::to_string(sz) + " but the tree has " + std::to_string(nodes.size()) + " nodes");
        if (*posns.rbegin() != sz) return fail("heap of " + std::to_string(sz) + " nodes is not a complete tree (deepest position " + std::to_string(*posns.rbegin()) + ")");
        if (shim_heap_prio(h) != shim_task_prio(top)) return fail("heap->priority = " + std::to_string(shim_heap_prio(h)) + " differs from the top's priority " + std::to_string(shim_task_prio(top)));
        for (void *t : nodes) { if (!known.count(t)) return fail("heap holds a pointer that was never inserted"); ids->push_back(shim_task_id(t)); if (!shim_task_guard_ok(t)) return fail("task memory overwritten"); }
        std::sort(ids->begin(), ids->end());
        return true;
    }
    std::set<void *> known;
    // touched heaps must hold exactly `expect` (union over the touched heaps, no duplicates)
    bool recheck(const std::vector<void *> &touched, std::vector<int> expect, const char *what) {
        std::vector<int> got;
        for (void *h : touched) { std::vector<int> ids; if (!walk_heap(h, &ids)) return false; held[h] = ids; got.insert(got.end(), ids.begin(), ids.end()); }
        std::sort(got.begin(), got.end()); std::sort(expect.begin(), expect.end());
        if (got != expect) {
            for (int id : expect) if (!std::binary_search(got.begin(), got.end(), id)) return fail("task #" + std::to_string(id) + " (priority " + std::to_string(shim_task_prio(all[(size_t)id])) + ") is lost after " + what + ": in no heap and not returned");
            for (size_t i = 1; i < got.size(); i++) if (got[i] == got[i - 1]) return fail("task #" + std::to_string(got[i]) + " is in two places after " + std::string(what));
            return fail(std::string("heap contents differ from the model after ") + what);
        }
        return true;
    }
    bool invariants() {
        if (!sink.err.empty()) return fail(sink.err);
        for (void *h : sink.got) forest.push_back(h);          // heaps that overflowed the parking buffer come back
        sink.got.clear();
        std::set<void *> hs_seen; size_t total = 0;
        for (void *h : forest) { if (!hs_seen.insert(h).second) return fail("heap held twice"); if (!held.count(h)) return fail("unknown heap"); total += held[h].size(); }
        for (void *h : items_of(park)) { if (!hs_seen.insert(h).second) return fail("heap held twice"); if (!held.count(h)) return fail("unknown heap in the parking buffer"); total += held[h].size(); }
        if (hs_seen.size() != held.size()) return fail("a heap is lost: neither in the forest nor parked");
        if (total + returned.size() != all.size()) return fail("task accounting: heaps hold " + std::to_string(total) + ", returned " + std::to_string(returned.size()) + ", inserted " + std::to_string(all.size()));
        return true;
    }
    static int heap_max(void *h) { return shim_task_prio(shim_heap_top(h)); }

    bool insert(int hi, const std::vector<int> &prios) {
        if (prios.empty()) return true;
        size_t n = forest.size();
        size_t idx = (size_t)hi % (n + 1);
        void *h;
        if (idx == n) { h = shim_heap_create(); forest.push_back(h); splits_of[h] = 0; held[h] = {}; lab["heap_created"]++; }
        else h = forest[idx];
        for (int p : prios) {
            if (shim_heap_size(h) >= 200) break;
            void *t = shim_task_new(p, (int)all.size()); all.push_back(t); known.insert(t);
            std::vector<int> expect = held[h]; expect.push_back(shim_task_id(t));
            shim_heap_insert(h, t);
            if (!recheck({h}, expect, "heap_insert") || !invariants()) return false;
        }
        lab["insert"]++;
        return true;
    }
    bool take(int hi, bool split) {
        if (forest.empty()) return true;
        size_t idx = (size_t)hi % forest.size();
        void *h = forest[idx], *nh = nullptr;
        unsigned sz = shim_heap_size(h);
        void *top = shim_heap_top(h);
        int mx = shim_task_prio(top);
        int anc = splits_of[h];
        std::vector<int> expect = held[h]; void *h0 = h;
        void *r = split ? shim_heap_split(&h, &nh) : shim_heap_remove(&h);
        if (!r) return fail(std::string(split ? "heap_split_and_steal" : "heap_remove") + " returned NULL for a heap of " + std::to_string(sz) + " tasks");
        if (shim_task_prio(r) != mx) return fail("returned task has priority " + std::to_string(shim_task_prio(r)) + " but the heap's highest priority was " + std::to_string(mx));
        if (returned.count(r)) return fail("task returned twice");
        returned.insert(r);
        if (!known.count(r)) return fail("returned pointer was never inserted");
        { auto it = std::find(expect.begin(), expect.end(), shim_task_id(r)); if (it == expect.end()) return fail("returned task was not in this heap"); expect.erase(it); }
        held.erase(h0);
        splits_of.erase(forest[idx]);
        if (h == nullptr) { if (sz != 1) return fail("heap of " + std::to_string(sz) + " tasks was destroyed"); forest.erase(forest.begin() + (long)idx); }
        else { forest[idx] = h; splits_of[h] = anc + (split && nh ? 1 : 0); shim_heap_singleton(h); }
        if (sz == 1 && h != nullptr) return fail("heap with a single task was not destroyed when emptied");
        if (split) {
            if (nh) {
                if (sz < 3) return fail("a heap of " + std::to_string(sz) + " tasks was split");
                shim_heap_singleton(nh);      // as sched_ltq_select does before pushing both heaps
                forest.push_back(nh); splits_of[nh] = anc + 1;
                if (shim_heap_size(h) + shim_heap_size(nh) + 1 != sz) return fail("split sizes " + std::to_string(shim_heap_size(h)) + " + " + std::to_string(shim_heap_size(nh)) + " + 1 != " + std::to_string(sz));
                lab["split_real"]++;
                if (sz >= 7 && anc >= 1) big_split_twice++;
                if (sz >= 7) lab["split_of_7plus"]++;
            } else {
                if (sz >= 3) return fail("heap of " + std::to_string(sz) + " tasks was not split by heap_split_and_steal");
                lab["split_small"]++;
            }
        } else lab[sz >= 3 ? "remove_bubble" : "remove_small"]++;
        std::vector<void *> touched; if (h) touched.push_back(h); if (nh) touched.push_back(nh);
        if (!recheck(touched, expect, split ? "heap_split_and_steal" : "heap_remove")) return false;
        return invariants();
    }
    bool parkop(int hi) {
        if (forest.empty()) return true;
        size_t idx = (size_t)hi % forest.size();
        void *h = forest[idx];
        forest.erase(forest.begin() + (long)idx);
        shim_heap_singleton(h);
        shim_hbb_push_all(park, h, 0);
        lab["park"]++;
        return invariants();
    }
    bool unpark() {
        std::vector<void *> before = items_of(park);
        void *h = shim_hbb_pop_best(park, shim_heap_prio_off());
        if (before.empty()) { if (h) return fail("pop_best on an empty buffer of heaps returned something"); return true; }
        if (!h) return fail("pop_best returned NULL although heaps are parked");
        int mx = INT_MIN; for (void *x : before) mx = std::max(mx, heap_max(x));
        if (heap_max(h) != mx) return fail("pop_best over heaps returned a heap with top priority " + std::to_string(heap_max(h)) + " while a parked heap has " + std::to_string(mx));
        forest.push_back(h);
        lab["unpark"]++;
        return invariants();
    }
    bool apply(const COp &o) {
        if (o.k == "I") return insert(o.a, o.p);
        if (o.k == "R") return take(o.a, false);
        if (o.k == "S") return take(o.a, true);
        if (o.k == "K") return parkop(o.a);
        if (o.k == "U") return unpark();
        return true;
    }
    bool finish() {
        while (!items_of(park).empty()) if (!unpark()) return false;
        int k = 0;
        while (!forest.empty()) { if (!take(k, (k % 3) == 0)) return false; k++; if (k > 100000) return fail("drain does not terminate"); }
        if (returned.size() != all.size()) return fail("after draining every heap " + std::to_string(all.size() - returned.size()) + " tasks were never returned");
        return true;
    }
};

static Outcome run_heap(int hs, const std::vector<COp> &ops) {
    Outcome out; HeapRunner r(hs);
    out.text = ops_text("H " + std::to_string(hs), ops); crashnote::set(out.text);
    for (size_t i = 0; i < ops.size(); i++)
        if (!r.apply(ops[i])) { out.err = "op #" + std::to_string(i) + " (" + ops[i].k + " " + std::to_string(ops[i].a) + "): " + r.err; break; }
    out.nheaps = (int)r.forest.size();
    if (out.err.empty() && !r.finish()) out.err = "final drain: " + r.err;
    out.nontrivial = r.big_split_twice > 0;
    out.lab = r.lab;
    return out;
}

// ------------------------------------------------------------------------------------------------ words -> ops
static int prio_from(long mode, long x) {
    switch (mode % 4) {
    case 0: return (int)(x % 3);
    case 1: return (int)(x % 16);
    case 2: return (int)(x % 17) - 8;
    default: { static const int ex[] = {INT_MIN, INT_MIN + 1, -1, 0, 1, 2, INT_MAX - 1, INT_MAX, 1000, -1000}; return ex[x % 10]; }
    }
}
static long mix(long a, long b, long i) { unsigned long h = (unsigned long)a * 2654435761UL ^ ((unsigned long)b + 0x9e3779b97f4a7c15UL) * (unsigned long)(i + 1); h ^= h >> 29; h *= 0xbf58476d1ce4e5b9UL; h ^= h >> 32; return (long)(h & 0x7fffffff); }

static Outcome run_words(const Words &w) {
    if (w.size() < 5) { Outcome o; o.text = "B 1 1 0\n"; return run_buffer(1, 1, 0, {}); }
    long pm = w[4];
    std::vector<COp> ops;
    if (w[0] % 2 == 0) {
        int s1 = 1 + (int)(w[1] % 8), s2 = 1 + (int)(w[2] % 8), wrap = (w[3] % 3) == 2;
        for (size_t i = 5; i + 2 < w.size() && ops.size() < 300; i += 3) {
            long sel = w[i] % 8, a = w[i + 1], b = w[i + 2];
            COp o;
            static const int dist[8] = {0, 0, 0, 0, 0, 1, 2, 3};
            if (sel <= 3 || sel == 7) {
                o.k = sel <= 1 ? "PA" : (sel <= 3 ? "PP" : "QA");
                o.a = dist[b % 8]; if (sel == 7) o.a = (int)(b % 2);
                int n = 1 + (int)(a % 12);
                for (int j = 0; j < n; j++) o.p.push_back(prio_from(pm, mix(a, b, j)));
            } else o.k = (sel == 6) ? "PQ" : "PC";
            ops.push_back(o);
        }
        Outcome out = run_buffer(s1, s2, wrap, ops);
        out.lab["mode_buffer"] = 1; out.lab["prio_mode_" + std::to_string(pm % 4)] = 1;
        return out;
    }
    int hs = 1 + (int)(w[1] % 4);
    for (size_t i = 5; i + 2 < w.size() && ops.size() < 300; i += 3) {
        long sel = w[i] % 10, a = w[i + 1], b = w[i + 2];
        COp o; o.a = (int)(a % 1000);
        if (sel <= 3) { o.k = "I"; o.p.push_back(prio_from(pm, b)); }
        else if (sel == 4) { o.k = "I"; int n = 1 + (int)(b % 24); for (int j = 0; j < n; j++) o.p.push_back(prio_from(pm, mix(a, b, j))); }
        else if (sel <= 6) o.k = "R";
        else if (sel <= 8) o.k = "S";
        else o.k = (b % 2) ? "U" : "K";
        ops.push_back(o);
    }
    Outcome out = run_heap(hs, ops);
    out.lab["mode_heap"] = 1; out.lab["prio_mode_" + std::to_string(pm % 4)] = 1;
    return out;
}

static void note(const Outcome &o) {
    vf::note_case(o.text, o.nontrivial);
    for (auto &kv : o.lab) if (kv.second) vf::label(kv.first, (uint64_t)kv.second);
}

// ------------------------------------------------------------------------------------------------ replay text
static Outcome run_text(const std::string &txt) {
    std::istringstream in(txt); std::string line; std::vector<COp> ops;
    int mode = 0, a = 1, b = 1, c = 0;
    while (std::getline(in, line)) {
        if (line.empty() || line[0] == '#') continue;
        std::istringstream ls(line); std::string k; ls >> k;
        if (k == "W") { Words w; long x; while (ls >> x) w.push_back(x); return run_words(w); }
        if (k == "B") { mode = 1; ls >> a >> b >> c; continue; }
        if (k == "H") { mode = 2; ls >> a; continue; }
        COp o; o.k = k;
        if (k != "PC" && k != "PQ" && k != "U") ls >> o.a;
        int x; while (ls >> x) o.p.push_back(x);
        ops.push_back(o);
    }
    if (mode == 1) return run_buffer(std::max(1, std::min(a, 64)), std::max(1, std::min(b, 64)), c, ops);
    if (mode == 2) return run_heap(std::max(1, std::min(a, 64)), ops);
    Outcome o; o.err = "unparsable replay file"; return o;
}

// ------------------------------------------------------------------------------------------------ exhaustive
static uint64_t exh_count = 0;
static bool exh_buf(int s1, int s2, int wrap, std::vector<COp> &seq, int L, const std::vector<COp> &alphabet, std::string *bad) {
    if (!seq.empty()) {
        Outcome o = run_buffer(s1, s2, wrap, seq); note(o); exh_count++;
        if (!o.err.empty()) { *bad = o.err; vf::record_failure(o.text, o.err); return false; }
    }
    if ((int)seq.size() == L) return true;
    for (auto &c : alphabet) { seq.push_back(c); if (!exh_buf(s1, s2, wrap, seq, L, alphabet, bad)) return false; seq.pop_back(); }
    return true;
}
static bool exh_heap(std::vector<COp> &seq, int left, std::string *bad) {
    Outcome o = run_heap(1, seq); note(o); exh_count++;
    if (!o.err.empty()) { *bad = o.err; vf::record_failure(o.text, o.err); return false; }
    if (left == 0 || o.nheaps == 0) return true;
    std::set<int> idx{0, o.nheaps - 1};
    for (int h : idx) for (const char *k : {"R", "S"}) {
        COp c; c.k = k; c.a = h; seq.push_back(c);
        if (!exh_heap(seq, left - 1, bad)) return false;
        seq.pop_back();
    }
    return true;
}

// ------------------------------------------------------------------------------------------------ concurrent (dsched)
struct ConcCase {
    int s1, s2, nthreads; std::vector<std::vector<COp>> prog; std::vector<uint8_t> sched; int sparse;
    std::string repr() const {
        std::ostringstream o; o << "CONC " << s1 << " " << s2 << " " << nthreads << " " << sparse << "\n";
        for (int t = 0; t < nthreads; t++) for (auto &c : prog[t]) { o << "T" << t << " " << c.k << " " << c.a; for (int x : c.p) o << " " << x; o << "\n"; }
        o << "SCHED"; for (uint8_t b : sched) o << " " << (int)b; o << "\n";
        return o.str();
    }
};
static std::string *g_conc_repr = nullptr;

static std::string run_conc(const ConcCase &c, bool *nontrivial, std::map<std::string, int> *lab) {
    Sink sink; size_t off = shim_prio_off();
    void *parent = shim_hbb_new((size_t)c.s2, 1, Sink::push, &sink);
    void *child = shim_hbb_new((size_t)c.s1, 1, shim_push_in_buffer_wrapper, parent);
    std::vector<void *> all; std::vector<std::vector<void *>> popped(c.nthreads);
    // pre-create tasks and rings' members (allocation outside the scheduled region)
    std::vector<std::vector<std::vector<void *>>> members(c.nthreads);
    for (int t = 0; t < c.nthreads; t++) for (auto &o : c.prog[t]) {
        std::vector<void *> ts;
        for (int p : o.p) { void *x = shim_task_new(p, (int)all.size()); all.push_back(x); ts.push_back(x); }
        members[t].push_back(ts);
    }
    std::vector<std::function<void()>> bodies;
    for (int t = 0; t < c.nthreads; t++) bodies.push_back([&, t]() {
        for (size_t i = 0; i < c.prog[t].size(); i++) {
            const COp &o = c.prog[t][i];
            if (o.k == "PA" || o.k == "PP") {
                auto &ts = members[t][i]; if (ts.empty()) continue;
                void *ring = shim_ring_build(ts.data(), (int)ts.size(), o.k == "PP", off);
                if (o.k == "PP") shim_hbb_push_prio(child, ring, o.a); else shim_hbb_push_all(child, ring, o.a);
            } else {
                void *r = shim_hbb_pop_best(o.k == "PC" ? child : parent, off);
                if (r) popped[t].push_back(r);
            }
        }
    });
    dsched::ByteChooser ch(c.sched.data(), c.sched.size(), c.sparse);
    dsched::Outcome oc = dsched::run(bodies, ch, 200000);
    std::string err;
    std::map<void *, int> seen;
    for (void *t : items_of(child)) seen[t]++;
    for (void *t : items_of(parent)) seen[t]++;
    for (void *t : sink.got) seen[t]++;
    size_t np = 0;
    for (auto &v : popped) for (void *t : v) { seen[t]++; np++; }
    if (!sink.err.empty()) err = sink.err;
    for (void *t : all) {
        if (!err.empty()) break;
        auto it = seen.find(t);
        if (it == seen.end()) err = "task #" + std::to_string(shim_task_id(t)) + " lost under concurrent push/pop";
        else if (it->second != 1) err = "task #" + std::to_string(shim_task_id(t)) + " held " + std::to_string(it->second) + " times after concurrent push/pop";
    }
    if (err.empty() && seen.size() != all.size()) err = "foreign pointer in a buffer";
    *nontrivial = oc.switches >= 3 && np >= 1 && (!sink.got.empty() || !items_of(parent).empty());
    if (lab) { (*lab)["conc_switches_ge3"] += oc.switches >= 3; (*lab)["conc_overflow"] += (!sink.got.empty() || !items_of(parent).empty()); (*lab)["conc_popped"] += np > 0; }
    shim_hbb_free(child); shim_hbb_free(parent);
    for (void *t : all) shim_task_free(t);
    return err;
}

static bool parse_conc(const std::string &txt, ConcCase *c) {
    std::istringstream in(txt); std::string line; bool have = false;
    while (std::getline(in, line)) {
        std::istringstream ls(line); std::string k; ls >> k;
        if (k == "CONC") { ls >> c->s1 >> c->s2 >> c->nthreads >> c->sparse; c->prog.assign((size_t)c->nthreads, {}); have = true; }
        else if (k.size() >= 2 && k[0] == 'T' && have) {
            int t = atoi(k.c_str() + 1); if (t < 0 || t >= c->nthreads) return false;
            COp o; ls >> o.k >> o.a; int x; while (ls >> x) o.p.push_back(x); c->prog[(size_t)t].push_back(o);
        } else if (k == "SCHED") { int x; while (ls >> x) c->sched.push_back((uint8_t)x); }
    }
    return have && c->nthreads >= 1 && c->nthreads <= 8 && c->s1 >= 1 && c->s2 >= 1;
}

// ------------------------------------------------------------------------------------------------ stress (real threads)
static int run_stress(int nthreads, long iters, long seed) {
    Sink sink; sink.locked = true; size_t off = shim_prio_off();
    void *parent = shim_hbb_new(4, 1, Sink::push, &sink);
    void *child = shim_hbb_new(3, 1, shim_push_in_buffer_wrapper, parent);
    int npush = nthreads / 2 ? nthreads / 2 : 1, npop = nthreads - npush;
    std::vector<std::vector<void *>> mine((size_t)npush), got((size_t)npop + 1);
    std::atomic<int> pushers_left(npush);
    std::vector<std::thread> th;
    for (int t = 0; t < npush; t++) th.emplace_back([&, t]() {
        unsigned long x = (unsigned long)seed * 7919UL + (unsigned long)t * 104729UL + 1;
        long made = 0;
        while (made < iters) {
            x = x * 6364136223846793005UL + 1442695040888963407UL;
            int n = 1 + (int)((x >> 33) % 4); void *ts[4];
            for (int j = 0; j < n; j++) { ts[j] = shim_task_new((int)((x >> (40 + j * 3)) % 8), (int)made + t * 10000000); mine[(size_t)t].push_back(ts[j]); made++; }
            bool sorted = (x >> 60) & 1;
            void *ring = shim_ring_build(ts, n, sorted, off);
            if (sorted) shim_hbb_push_prio(child, ring, 0); else shim_hbb_push_all(child, ring, (int)((x >> 62) & 1));
        }
        pushers_left--;
    });
    for (int t = 0; t < npop; t++) th.emplace_back([&, t]() {
        for (;;) {
            bool last = pushers_left.load() == 0;
            void *r = shim_hbb_pop_best((t & 1) ? parent : child, off);
            if (r) got[(size_t)t].push_back(r);
            else if (last) break;
            else std::this_thread::yield();
        }
    });
    for (auto &x : th) x.join();
    void *r;
    while ((r = shim_hbb_pop_best(child, off))) got[(size_t)npop].push_back(r);
    while ((r = shim_hbb_pop_best(parent, off))) got[(size_t)npop].push_back(r);
    std::set<void *> seen; std::string err; size_t total = 0, dup = 0;
    for (auto &v : got) for (void *t : v) { if (!seen.insert(t).second) dup++; }
    for (void *t : sink.got) { if (!seen.insert(t).second) dup++; }
    for (auto &v : mine) total += v.size();
    if (!sink.err.empty()) err = sink.err;
    else if (dup) err = std::to_string(dup) + " tasks obtained twice under " + std::to_string(nthreads) + " threads";
    else if (seen.size() != total) err = std::to_string(total - seen.size()) + " of " + std::to_string(total) + " tasks lost under " + std::to_string(nthreads) + " threads";
    std::string repr = "STRESS " + std::to_string(nthreads) + " " + std::to_string(iters) + " " + std::to_string(seed) + "\n";
    vf::note_case(repr, true);
    vf::label("stress_tasks", total); vf::label("stress_top_store", sink.got.size());
    for (auto &v : mine) for (void *t : v) shim_task_free(t);
    shim_hbb_free(child); shim_hbb_free(parent);
    if (!err.empty()) { vf::record_failure(repr, err); vf::dump(); return 1; }
    vf::dump();
    return 0;
}

// ------------------------------------------------------------------------------------------------ main
static std::string words_text(const Words &w) { std::ostringstream o; o << "W"; for (long x : w) o << " " << x; o << "\n"; return o.str(); }

int main(int argc, char **argv) {
    std::string mode = argc > 1 ? argv[1] : "rc";
    if (mode == "replay") {
        std::string txt = vf::slurp(argv[2]);
        std::string err;
        if (txt.find("CONC ") != std::string::npos) {
            ConcCase c; if (!parse_conc(txt, &c)) { printf("REPLAY-FAIL unparsable\n"); return 1; }
            bool nt; err = run_conc(c, &nt, nullptr);
        } else if (txt.compare(0, 6, "STRESS") == 0) {
            int n; long it, sd; sscanf(txt.c_str(), "STRESS %d %ld %ld", &n, &it, &sd); return run_stress(n, it, sd) == 0 ? (printf("REPLAY-PASS\n"), 0) : (printf("REPLAY-FAIL stress\n"), 1);
        } else err = run_text(txt).err;
        if (err.empty()) { printf("REPLAY-PASS\n"); return 0; }
        printf("REPLAY-FAIL %s\n", err.c_str()); return 1;
    }
    crashnote::install();
    if (mode == "stress") return run_stress(atoi(argv[2]), atol(argv[3]), atol(argv[4]));
    if (mode == "exhbuf") {          // exhbuf s1 s2 wrap L maxring maxdistance
        int s1 = atoi(argv[2]), s2 = atoi(argv[3]), wrap = atoi(argv[4]), L = atoi(argv[5]), mr = atoi(argv[6]), md = atoi(argv[7]);
        std::vector<COp> alpha;
        std::vector<std::vector<int>> rings;
        for (int a = 0; a < 2; a++) { rings.push_back({a}); if (mr >= 2) for (int b = 0; b < 2; b++) { rings.push_back({a, b}); if (mr >= 3) for (int c = 0; c < 2; c++) rings.push_back({a, b, c}); } }
        for (auto &r : rings) for (int d = 0; d <= md; d++) {
            COp o; o.k = "PA"; o.a = d; o.p = r; alpha.push_back(o);
            bool sorted = true; for (size_t i = 1; i < r.size(); i++) if (r[i] > r[i - 1]) sorted = false;
            if (sorted) { o.k = "PP"; alpha.push_back(o); }       // the ring builder sorts: only canonical priority vectors
        }
        { COp o; o.k = "PC"; alpha.push_back(o); o.k = "PQ"; alpha.push_back(o); }
        std::vector<COp> seq; std::string bad;
        bool ok = exh_buf(s1, s2, wrap, seq, L, alpha, &bad);
        vf::R().extra["exhaustive_sequences"] = std::to_string(exh_count);
        vf::dump(); return ok ? 0 : 1;
    }
    if (mode == "exhheap") {         // exhheap N K part nparts: all priority vectors over 0..K-1 of length N, then all drains
        int N = atoi(argv[2]), K = atoi(argv[3]), part = atoi(argv[4]), nparts = atoi(argv[5]);
        long total = 1; for (int i = 0; i < N; i++) total *= K;
        bool ok = true; std::string bad;
        for (long v = 0; v < total && ok; v++) {
            if (v % nparts != part) continue;
            COp ins; ins.k = "I"; ins.a = 0; long x = v;
            for (int i = 0; i < N; i++) { ins.p.push_back((int)(x % K)); x /= K; }
            std::vector<COp> seq{ins};
            ok = exh_heap(seq, N, &bad);
        }
        vf::R().extra["exhaustive_sequences"] = std::to_string(exh_count);
        vf::dump(); return ok ? 0 : 1;
    }
    if (mode == "conc") {
        dsched::on_fatal() = [](const char *what) { if (g_conc_repr) { vf::record_failure(*g_conc_repr, what); vf::dump(); } };
        bool ok = rc::check("hbbuffer loses / duplicates no task under generated schedules", []() {
            ConcCase c;
            c.s1 = *rc::gen::resize(100, rc::gen::inRange(1, 4)); c.s2 = *rc::gen::resize(100, rc::gen::inRange(1, 3));
            c.nthreads = *rc::gen::resize(100, rc::gen::inRange(2, 4));
            c.sparse = *rc::gen::resize(100, rc::gen::element(0, 0, 128, 200));
            c.prog.resize((size_t)c.nthreads);
            for (int t = 0; t < c.nthreads; t++) {
                int n = *rc::gen::resize(100, rc::gen::inRange(1, 5));
                for (int i = 0; i < n; i++) {
                    COp o; int sel = *rc::gen::resize(100, rc::gen::inRange(0, 6));
                    if (sel <= 2) {
                        o.k = sel == 2 ? "PP" : "PA"; o.a = *rc::gen::resize(100, rc::gen::element(0, 0, 0, 1));
                        int len = *rc::gen::resize(100, rc::gen::inRange(1, 4));
                        for (int j = 0; j < len; j++) o.p.push_back(*rc::gen::resize(100, rc::gen::inRange(0, 3)));
                    } else o.k = sel == 5 ? "PQ" : "PC";
                    c.prog[(size_t)t].push_back(o);
                }
            }
            c.sched = *rc::gen::container<std::vector<uint8_t>>(*rc::gen::resize(100, rc::gen::inRange<size_t>(0, 120)), rc::gen::arbitrary<uint8_t>());
            std::string repr = c.repr(); g_conc_repr = &repr; crashnote::set(repr);
            bool nt = false; std::map<std::string, int> lab;
            std::string e = run_conc(c, &nt, &lab);
            vf::note_case(repr, nt);
            for (auto &kv : lab) if (kv.second) vf::label(kv.first, (uint64_t)kv.second);
            g_conc_repr = nullptr;
            if (!e.empty()) { vf::record_failure(repr, e); RC_FAIL(e); }
        });
        vf::dump(); return ok ? 0 : 1;
    }
    bool ok = rc::check("hbbuffer / maxheap == multiset model after every operation", []() {
        const auto len = *rc::gen::inRange<int>(0, 120);
        Words w = *rc::gen::container<Words>((size_t)(5 + 3 * len), rc::gen::resize(100, rc::gen::inRange<long>(0, 65536)));
        Outcome o = run_words(w);
        note(o);
        if (!o.err.empty()) { vf::record_failure(o.text, o.err); RC_FAIL(o.err); }
    });
    (void)words_text;
    vf::dump();
    return ok ? 0 : 1;
}
