"""C35 -- hierarchical bounded buffers and the scheduler max-heap: multiset models (rapidcheck + exhaustive small
scopes) and concurrent no-loss checks (dsched schedules + real-thread stress)."""
import os
import subprocess

from vf import core

PROP = "C35"
ASAN = {"ASAN_OPTIONS": core.SAN_RUN_ENV["ASAN_OPTIONS"] + ":quarantine_size_mb=8"}
RULE = ("case = buffer mode: (child size 1..8, parent hbbuffer size 1..8 whose parent is a harness sink, sequence of "
        "push_all / push_all_by_priority(sorted ring) with rings of 1..12 new tasks and distance 0..3, push into the parent, "
        "pop_best on child / parent); heap mode: forest of parsec_heap_t with heap_insert / heap_remove / "
        "heap_split_and_steal, heaps parked in an hbbuffer and popped by heap priority; oracle after every operation = "
        "conservation (each task exactly once in a buffer, the parent store or the popped set; each inserted task in "
        "exactly one heap or returned once), quiescent pop_best returns a maximal priority (NULL iff empty), every heap "
        "walked: order, size == node count, complete shape, priority == top's, remove/split return the top, split sizes add "
        "up; non-trivial = buffer mode: a push overflowed to the parent; heap mode: a heap of >= 7 nodes that descends from "
        "a split was split again; concurrent parts: conservation only; distinct = distinct operation texts")


def _build():
    return core.build_harness("C35/hbheap", ["harness/C35/hbheap.cc"], tree="san", rapidcheck=True,
                              plain_c_sources=["harness/C35/shim.c"])


def _collect(res, wr):
    for f in wr.failures:
        res.violations.append(core.Violation(f["msg"], replay_text=f["replay_text"]))
    for c in wr.crashes:
        res.violations.append(core.Violation("harness process died (rc=%s): %s" % (c["rc"], c["log_tail"][-1200:]),
                                             replay_text="# crash of %s\n%s" % (" ".join(c["cmd"]), c["log_tail"][-1500:])))


def run(tier, seed, res):
    b = _build()
    quick = tier == "quick"
    res.rule = RULE
    res.assumptions = ["rings given to push_all_by_priority are sorted as parsec_list_item_ring_push_sorted leaves them",
                       "each task is pushed once (tasks are not re-pushed while still referenced)",
                       "heaps are used by one thread at a time (maxheap.h: not thread safe); heap_remove/split only on non-empty heaps",
                       "where an overflow goes is not asserted beyond conservation (labels overflow_with_full_buffer, by_priority_kept_best)",
                       "concurrent parts check loss/duplication only (the documented priority inversion under ABA is allowed)"]
    # (1) exhaustive small scopes
    jobs = []
    L, mr, md = (3, 2, 1) if quick else (4, 2, 2)
    for s1 in (1, 2):
        for s2 in (1, 2):
            for wrap in (0, 1):
                jobs.append(dict(cmd=[b, "exhbuf", str(s1), str(s2), str(wrap), str(L), str(mr), str(md)], env=dict(ASAN), tag="exhbuf"))
    if not quick:
        jobs.append(dict(cmd=[b, "exhbuf", "2", "1", "0", "3", "3", "2"], env=dict(ASAN), tag="exhbuf"))
    heapplan = [(n, 3) for n in range(1, 6)] + [(6, 2)] if quick else [(n, 3) for n in range(1, 7)] + [(7, 2), (8, 2)]
    for (n, k) in heapplan:
        parts = 1 if n <= 4 else 8
        for part in range(parts):
            jobs.append(dict(cmd=[b, "exhheap", str(n), str(k), str(part), str(parts)], env=dict(ASAN), tag="exhheap"))
    wr = core.run_workers(PROP, jobs)
    res.absorb(wr, "exhaustive")
    res.coverage["exhaustive"] = not (wr.failures or wr.crashes)
    res.coverage["exhaustive_subspace"] = ("hbbuffer: child/parent sizes 1..2, both parent wrappers, every sequence up to length %d over "
                                           "{push_all, push_all_by_priority} x rings of <= %d tasks with priorities 0/1 x distance 0..%d, "
                                           "pop child, pop parent; heap: every priority vector (N, priorities) in %s inserted in order, "
                                           "then every drain script of remove/split on the first or last heap" % (L, mr, md, heapplan))
    _collect(res, wr)
    # (2) rapidcheck, sequential model
    n = 12
    per = 1500 if quick else 300000
    jobs = [dict(cmd=[b, "rc"], env=dict(ASAN, RC_PARAMS="seed=%d max_success=%d max_size=200" % (seed * 131 + i, per)), tag="rc")
            for i in range(n)]
    wr = core.run_workers(PROP, jobs)
    res.absorb(wr, "rc")
    _collect(res, wr)
    # (3) generated schedules (dsched): pushers and poppers on a shared two-level buffer
    per = 2000 if quick else 150000
    jobs = [dict(cmd=[b, "conc"], env=dict(ASAN, RC_PARAMS="seed=%d max_success=%d max_size=100" % (seed * 977 + i, per)), tag="conc")
            for i in range(n)]
    wr = core.run_workers(PROP, jobs)
    res.absorb(wr, "conc")
    _collect(res, wr)
    # (4) real threads
    iters = 20000 if quick else 5000000
    jobs = [dict(cmd=[b, "stress", str(t), str(iters), str(seed * 17 + t)], env=dict(ASAN), tag="stress") for t in (2, 4, 8)]
    wr = core.run_workers(PROP, jobs, max_parallel=3 if quick else 1)
    res.absorb(wr, "stress")
    _collect(res, wr)


def replay(path):
    b = _build()
    env = dict(os.environ)
    env.update(core.SAN_RUN_ENV)
    p = subprocess.run([b, "replay", path], env=env, stdout=subprocess.PIPE, stderr=subprocess.STDOUT, text=True)
    return p.returncode == 0 and "REPLAY-PASS" in p.stdout, p.stdout[-2000:]
