// C30 -- The lock-free LIFO is a linearizable stack.
//
// case = (per-thread programs of push / chain / pop / try_pop with item recycling, schedule bytes)
// run under dsched (the schedule is owned by the harness); oracle = the recorded history (including the
// final sequential drain) is linearizable w.r.t. a sequential stack + conservation of items.
// modes:  rc (rapidcheck samples programs and schedules), exh (all programs of 2 threads x 2 ops x all schedules),
//         stress (free-running threads, conservation oracle), replay <file>.
#include <algorithm>
#include <atomic>
#include <thread>
#include "vf.hpp"
#include "dsched.hpp"
#include "linearize.hpp"
#include <rapidcheck.h>

extern "C" {
struct parsec_lifo_s; struct parsec_list_item_s;
typedef struct parsec_lifo_s parsec_lifo_t; typedef struct parsec_list_item_s parsec_list_item_t;
parsec_lifo_t *shim_lifo_new(void); void shim_lifo_free(parsec_lifo_t *);
parsec_list_item_t *shim_item_new(parsec_lifo_t *, int); void shim_item_free(parsec_list_item_t *);
int shim_item_id(parsec_list_item_t *);
void shim_push(parsec_lifo_t *, parsec_list_item_t *); void shim_chain(parsec_lifo_t *, parsec_list_item_t **, int);
parsec_list_item_t *shim_pop(parsec_lifo_t *); parsec_list_item_t *shim_try_pop(parsec_lifo_t *);
int shim_is_empty(parsec_lifo_t *);
}

enum { PUSH = 0, CHAIN2 = 1, CHAIN3 = 2, POP = 3, TRYPOP = 4, NOPS = 5 };

struct Case {
    int ninit = 0;                        // items pushed sequentially before the threads start
    int hand = 2;                         // items each thread holds initially
    int sparse = 0;                       // schedule decoding mode
    std::vector<std::vector<int>> prog;   // per thread
    std::vector<uint8_t> sched;
    std::string repr() const {
        std::ostringstream o;
        o << "C30 ninit " << ninit << " hand " << hand << " sparse " << sparse << " threads " << prog.size() << "\n";
        for (auto &p : prog) { o << "prog"; for (int x : p) o << " " << x; o << "\n"; }
        o << "sched"; for (uint8_t b : sched) o << " " << (int)b; o << "\n";
        return o.str();
    }
    static Case parse(const std::string &s) {
        Case c; std::istringstream in(s); std::string line;
        while (std::getline(in, line)) {
            std::istringstream ls(line); std::string w; ls >> w;
            if (w == "C30") { std::string k; int v; while (ls >> k >> v) { if (k == "ninit") c.ninit = v; else if (k == "hand") c.hand = v; else if (k == "sparse") c.sparse = v; } }
            else if (w == "prog") { std::vector<int> p; int x; while (ls >> x) p.push_back(x); c.prog.push_back(p); }
            else if (w == "sched") { int x; while (ls >> x) c.sched.push_back((uint8_t)x); }
        }
        return c;
    }
};

struct HOp {
    int type; std::vector<int> items; int result = -1; bool may_fail = false; int thread = -1;
    uint64_t inv = 0, resp = 0;
};

struct StackModel {
    std::vector<int> st;   // top at back
    bool apply(const HOp &o) {
        switch (o.type) {
        case PUSH: st.push_back(o.items[0]); return true;
        case CHAIN2: case CHAIN3:
            for (int i = (int)o.items.size() - 1; i >= 0; i--) st.push_back(o.items[i]);   // first ring element ends on top
            return true;
        case POP:
            if (o.result < 0) return st.empty();
            if (st.empty() || st.back() != o.result) return false;
            st.pop_back(); return true;
        case TRYPOP:
            if (o.result < 0) return st.empty() || o.may_fail;
            if (st.empty() || st.back() != o.result) return false;
            st.pop_back(); return true;
        }
        return false;
    }
    std::string key() const { return std::string((const char *)st.data(), st.size() * sizeof(int)); }
};

struct RunInfo { bool nontrivial = false; uint64_t steps = 0; size_t hist = 0; bool overlap = false, recycled = false; };

// Runs the case under `ch`; returns "" if the property held.
static std::string run_case(const Case &c, dsched::Chooser &ch, RunInfo *ri) {
    int T = (int)c.prog.size();
    parsec_lifo_t *l = shim_lifo_new();
    int nitems = c.ninit + T * c.hand;
    std::vector<parsec_list_item_t *> items(nitems);
    for (int i = 0; i < nitems; i++) items[i] = shim_item_new(l, i);
    std::vector<HOp> hist;  // appended only by the running thread (one at a time under dsched)
    StackModel init;
    for (int i = 0; i < c.ninit; i++) { shim_push(l, items[i]); init.st.push_back(i); }
    std::vector<std::vector<int>> hands(T);
    for (int t = 0; t < T; t++) for (int k = 0; k < c.hand; k++) hands[t].push_back(c.ninit + t * c.hand + k);
    std::vector<int> pushes(nitems, 0);
    std::string err;
    std::vector<std::function<void()>> bodies;
    for (int t = 0; t < T; t++) {
        bodies.push_back([&, t]() {
            for (int op : c.prog[t]) {
                HOp h; h.type = op; h.thread = t;
                auto &hand = hands[t];
                if (op == PUSH) {
                    if (hand.empty()) continue;
                    int it = hand.back(); hand.pop_back(); h.items = {it}; pushes[it]++;
                    h.inv = dsched::now(); shim_push(l, items[it]); h.resp = dsched::now() + 1;
                } else if (op == CHAIN2 || op == CHAIN3) {
                    int k = op == CHAIN2 ? 2 : 3;
                    if ((int)hand.size() < k) continue;
                    parsec_list_item_t *ring[3];
                    for (int i = 0; i < k; i++) { int it = hand.back(); hand.pop_back(); h.items.push_back(it); ring[i] = items[it]; pushes[it]++; }
                    h.inv = dsched::now(); shim_chain(l, ring, k); h.resp = dsched::now() + 1;
                } else {
                    h.inv = dsched::now();
                    parsec_list_item_t *r = (op == POP) ? shim_pop(l) : shim_try_pop(l);
                    h.resp = dsched::now() + 1;
                    h.result = r ? shim_item_id(r) : -1;
                    if (r) hand.push_back(h.result);
                }
                hist.push_back(h);
            }
        });
    }
    dsched::Outcome out = dsched::run(bodies, ch, 100000);
    ri->steps = out.steps;
    // sequential drain, part of the history
    uint64_t stamp = out.steps + 10;
    std::vector<int> drained;
    for (int guard = 0; guard <= nitems + 1; guard++) {
        HOp h; h.type = POP; h.thread = -1; h.inv = stamp++; 
        parsec_list_item_t *r = shim_pop(l);
        h.resp = stamp++; h.result = r ? shim_item_id(r) : -1;
        hist.push_back(h);
        if (!r) break;
        drained.push_back(h.result);
        if ((int)drained.size() > nitems) { err = "drain returns more items than exist (cycle in the stack)"; break; }
    }
    // conservation: every item exactly once in (hands U drained)
    if (err.empty()) {
        std::vector<int> where(nitems, 0);
        for (auto &hd : hands) for (int it : hd) where[it]++;
        for (int it : drained) where[it]++;
        for (int i = 0; i < nitems; i++) if (where[i] != 1) { err = "item " + std::to_string(i) + (where[i] == 0 ? " was lost" : " was returned twice"); break; }
    }
    // overlap flags for try_pop failures + non-triviality
    for (size_t i = 0; i < hist.size(); i++) for (size_t j = 0; j < hist.size(); j++) {
        if (i == j) continue;
        bool ov = hist[i].inv < hist[j].resp && hist[j].inv < hist[i].resp;
        if (!ov) continue;
        ri->overlap = true;
        bool jmut = hist[j].type == PUSH || hist[j].type == CHAIN2 || hist[j].type == CHAIN3 || hist[j].result >= 0;
        if (hist[i].type == TRYPOP && jmut) hist[i].may_fail = true;
    }
    for (int i = 0; i < nitems; i++) if (pushes[i] >= 1 && i < c.ninit) ri->recycled = true;
    for (int i = c.ninit; i < nitems; i++) if (pushes[i] >= 2) ri->recycled = true;
    ri->nontrivial = ri->overlap && ri->recycled;
    ri->hist = hist.size();
    if (err.empty() && hist.size() <= 40) {
        if (!lin::linearizable<HOp, StackModel>(hist, init)) {
            std::ostringstream o; o << "history is not linearizable as a stack:";
            for (auto &h : hist) { o << " [t" << h.thread << " op" << h.type << " ("; for (int x : h.items) o << x << ","; o << ")->" << h.result << " @" << h.inv << "-" << h.resp << "]"; }
            err = o.str();
        }
    }
    for (auto it : items) shim_item_free(it);
    shim_lifo_free(l);
    return err;
}

static std::string g_current;
static void fatal_hook(const char *what) { vf::record_failure(g_current, what); vf::dump(); }

static int do_replay(const char *path) {
    Case c = Case::parse(vf::slurp(path));
    g_current = c.repr();
    dsched::ByteChooser ch(c.sched.data(), c.sched.size(), c.sparse);
    RunInfo ri; std::string e = run_case(c, ch, &ri);
    if (e.empty()) { printf("REPLAY-PASS\n"); return 0; }
    printf("REPLAY-FAIL %s\n", e.c_str()); return 1;
}

// exhaustive: all programs of 2 threads x nops ops (from the 5 op kinds), all schedules (preemption bound pb)
static int do_exh(int nops, int pb, int part, int nparts) {
    int total = 1; for (int i = 0; i < 2 * nops; i++) total *= NOPS;
    uint64_t execs = 0; bool truncated = false;
    for (int code = 0; code < total; code++) {
        if (code % nparts != part) continue;
        Case c; c.ninit = 2; c.hand = 3; c.prog.resize(2);
        int x = code; for (int t = 0; t < 2; t++) for (int i = 0; i < nops; i++) { c.prog[t].push_back(x % NOPS); x /= NOPS; }
        dsched::DfsChooser d(pb);
        bool any_nt = false; uint64_t n0 = 0;
        do {
            d.begin();
            // record the schedule actually taken so a failure can be replayed through ByteChooser
            RunInfo ri; std::string e = run_case(c, d, &ri);
            execs++; n0++;
            any_nt = any_nt || ri.nontrivial;
            if (!e.empty()) {
                Case f = c; f.sparse = 0;
                // the DFS stack holds the choices of this execution: convert to bytes (choice index itself)
                for (size_t k = 0; k < d.depth && k < d.stack.size(); k++) f.sched.push_back((uint8_t)d.stack[k].chosen);
                f.sparse = -1;
                vf::record_failure(f.repr(), e); vf::R().evaluations += execs; vf::dump(); return 1;
            }
        } while (d.next());
        truncated = truncated || d.truncated;
        vf::note_case(c.repr() + "#schedules " + std::to_string(n0) + "\n", any_nt);
        vf::R().evaluations += n0 - 1;
        vf::label("schedules_enumerated", n0);
    }
    vf::R().extra["exh_truncated"] = truncated ? "true" : "false";
    vf::dump();
    return 0;
}

// free-running stress: conservation only (each item in exactly one place), real parallelism
static int do_stress(int T, int seconds_unused, long iters, unsigned seed) {
    parsec_lifo_t *l = shim_lifo_new();
    int per = 8, nitems = T * per;
    std::vector<parsec_list_item_t *> items(nitems);
    for (int i = 0; i < nitems; i++) items[i] = shim_item_new(l, i);
    std::vector<std::vector<int>> hands(T);
    for (int t = 0; t < T; t++) for (int k = 0; k < per; k++) hands[t].push_back(t * per + k);
    std::atomic<int> bad{0};
    std::vector<std::atomic<int>> owner(nitems);
    for (auto &o : owner) o = 1;   // 1 = in a hand, 0 = in the lifo
    std::vector<std::thread> th;
    for (int t = 0; t < T; t++) th.emplace_back([&, t]() {
        uint64_t x = seed * 7919u + t * 104729u + 1;
        auto &hand = hands[t];
        for (long i = 0; i < iters; i++) {
            x = x * 6364136223846793005ULL + 1442695040888963407ULL; int op = (x >> 33) % 5;
            if (op == PUSH && !hand.empty()) { int it = hand.back(); hand.pop_back(); if (owner[it].exchange(0) != 1) bad++; shim_push(l, items[it]); }
            else if ((op == CHAIN2 || op == CHAIN3) && (int)hand.size() >= op + 1) {
                int k = op + 1; parsec_list_item_t *ring[3];
                for (int j = 0; j < k; j++) { int it = hand.back(); hand.pop_back(); if (owner[it].exchange(0) != 1) bad++; ring[j] = items[it]; }
                shim_chain(l, ring, k);
            } else if (op >= POP) {
                parsec_list_item_t *r = op == POP ? shim_pop(l) : shim_try_pop(l);
                if (r) { int it = shim_item_id(r); if (owner[it].exchange(1) != 0) bad++; hand.push_back(it); }
            }
        }
    });
    for (auto &t : th) t.join();
    std::vector<int> where(nitems, 0);
    for (auto &h : hands) for (int it : h) where[it]++;
    int guard = 0;
    while (parsec_list_item_t *r = shim_pop(l)) { where[shim_item_id(r)]++; if (++guard > nitems) break; }
    std::string e;
    if (bad) e = "an item was handed to two owners at once (" + std::to_string(bad.load()) + " times)";
    for (int i = 0; i < nitems && e.empty(); i++) if (where[i] != 1) e = "item " + std::to_string(i) + (where[i] ? " duplicated" : " lost") + " after stress";
    std::string repr = "C30-stress threads " + std::to_string(T) + " iters " + std::to_string(iters) + " seed " + std::to_string(seed) + "\n";
    vf::note_case(repr, T >= 2);
    vf::label("stress_ops", (uint64_t)iters * T);
    if (!e.empty()) { vf::record_failure(repr, e); vf::dump(); return 1; }
    vf::dump();
    return 0;
}

int main(int argc, char **argv) {
    std::string mode = argc > 1 ? argv[1] : "rc";
    dsched::on_fatal() = fatal_hook;
    if (mode == "replay") {
        std::string txt = vf::slurp(argv[2]);
        if (txt.rfind("C30-stress", 0) == 0) { int T; long it; unsigned sd; sscanf(txt.c_str(), "C30-stress threads %d iters %ld seed %u", &T, &it, &sd); int r = 0; for (int k = 0; k < 3 && !r; k++) r = do_stress(T, 0, it, sd); printf(r ? "REPLAY-FAIL stress\n" : "REPLAY-PASS\n"); return r; }
        return do_replay(argv[2]);
    }
    if (mode == "exh") return do_exh(atoi(argv[2]), atoi(argv[3]), atoi(argv[4]), atoi(argv[5]));
    if (mode == "stress") return do_stress(atoi(argv[2]), 0, atol(argv[3]), (unsigned)atoi(argv[4]));
    bool ok = rc::check("LIFO histories under owned schedules are linearizable stacks", []() {
        Case c;
        int T = *rc::gen::inRange(2, 5);
        c.ninit = *rc::gen::inRange(0, 4);
        c.hand = *rc::gen::inRange(1, 4);
        c.sparse = *rc::gen::element(0, 0, 128, 200, 240);
        c.prog.resize(T);
        for (int t = 0; t < T; t++) {
            int n = *rc::gen::inRange(1, 6);
            c.prog[t] = *rc::gen::container<std::vector<int>>((size_t)n, rc::gen::resize(100, rc::gen::inRange(0, (int)NOPS)));
        }
        int sl = *rc::gen::inRange(0, 120);
        c.sched = *rc::gen::container<std::vector<uint8_t>>((size_t)sl, rc::gen::resize(100, rc::gen::arbitrary<uint8_t>()));
        g_current = c.repr();
        dsched::ByteChooser ch(c.sched.data(), c.sched.size(), c.sparse);
        RunInfo ri; std::string e = run_case(c, ch, &ri);
        vf::note_case(g_current, ri.nontrivial);
        vf::label(std::string("threads_") + std::to_string(T));
        if (ri.overlap) vf::label("overlapping_ops");
        if (ri.recycled) vf::label("recycled_item");
        if (!e.empty()) { vf::record_failure(g_current, e); RC_FAIL(e); }
    });
    vf::dump();
    return ok ? 0 : 1;
}
