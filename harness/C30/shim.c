/* C shim: gives the C++ harness out-of-line access to the *inline* LIFO code
 * (compiled here with BUILDING_PARSEC so the H1 yield hooks are in this TU). */
#include "parsec/parsec_config.h"
#include "parsec/class/lifo.h"
#include <stdlib.h>

typedef struct { parsec_list_item_t super; int id; int pad; } shim_item_t;

parsec_lifo_t *shim_lifo_new(void) { parsec_lifo_t *l = PARSEC_OBJ_NEW(parsec_lifo_t); return l; }
void shim_lifo_free(parsec_lifo_t *l) { PARSEC_OBJ_RELEASE(l); }
parsec_list_item_t *shim_item_new(parsec_lifo_t *l, int id) {
    shim_item_t *it = (shim_item_t *)parsec_lifo_item_alloc(l, sizeof(shim_item_t));
    it->id = id; it->pad = 0x5a5a;
    return &it->super;
}
void shim_item_free(parsec_list_item_t *it) { parsec_lifo_item_free(it); }
int  shim_item_id(parsec_list_item_t *it) { return ((shim_item_t *)it)->id; }
void shim_push(parsec_lifo_t *l, parsec_list_item_t *it) { parsec_lifo_push(l, it); }
/* build a ring of the n items (in order) and chain it */
void shim_chain(parsec_lifo_t *l, parsec_list_item_t **its, int n) {
    for (int i = 0; i < n; i++) {
        its[i]->list_next = its[(i + 1) % n];
        its[i]->list_prev = its[(i + n - 1) % n];
    }
    parsec_lifo_chain(l, its[0]);
}
parsec_list_item_t *shim_pop(parsec_lifo_t *l) { return parsec_lifo_pop(l); }
parsec_list_item_t *shim_try_pop(parsec_lifo_t *l) { return parsec_lifo_try_pop(l); }
int shim_is_empty(parsec_lifo_t *l) { return parsec_lifo_is_empty(l); }
void shim_nolock_push(parsec_lifo_t *l, parsec_list_item_t *it) { parsec_lifo_nolock_push(l, it); }
parsec_list_item_t *shim_nolock_pop(parsec_lifo_t *l) { return parsec_lifo_nolock_pop(l); }
