"""C30 -- lock-free LIFO: schedule-owned linearizability testing (dsched) + exhaustive tiny space + stress."""
import os
import subprocess

from vf import core

PROP = "C30"
RULE = ("case = (2..4 thread programs of push/chain2/chain3/pop/try_pop with recycled items, schedule bytes); executed with one "
        "runnable thread at a time, context switches only at atomic operations (hook H1); oracle = Wing&Gong linearizability of "
        "the recorded history (incl. final drain) against a sequential stack + item conservation; non-trivial = operations of two "
        "threads overlapped AND an item was pushed again after having been popped/initially stacked; distinct = distinct "
        "(programs, schedule) values; exhaustive part = every program of 2 threads x 2 ops x every schedule")


def _build():
    return core.build_harness("C30/lifo", ["harness/C30/lifo.cc"], tree="san", rapidcheck=True,
                              plain_c_sources=["harness/C30/shim.c"])


def collect(res, wr):
    for f in wr.failures:
        res.violations.append(core.Violation(f["msg"], replay_text=f["replay_text"]))
    for c in wr.crashes:
        res.violations.append(core.Violation("harness process died (rc=%s): %s" % (c["rc"], c["log_tail"][-1200:]),
                                             replay_text="# crash of %s\n%s" % (" ".join(c["cmd"]), c["log_tail"][-1500:])))


def run(tier, seed, res):
    b = _build()
    quick = tier == "quick"
    res.rule = RULE
    res.assumptions = ["sequential consistency at atomic-operation granularity under dsched (weak-memory effects only via the stress part on x86)",
                       "items are aligned as parsec_lifo_item_alloc provides"]
    n = 16
    jobs = [dict(cmd=[b, "exh", "2", "99", str(i), str(n)], tag="exh") for i in range(n)]
    if not quick:
        jobs += [dict(cmd=[b, "exh", "3", "2", str(i), str(4 * n)], tag="exh3") for i in range(4 * n)]
    wr = core.run_workers(PROP, jobs)
    res.absorb(wr, "exhaustive")
    res.coverage["exhaustive"] = not (wr.failures or wr.crashes)
    res.coverage["exhaustive_subspace"] = "all 625 programs of 2 threads x 2 ops, all schedules with at most %s preemptions" % "unbounded"
    collect(res, wr)
    per = 6000 if quick else 120000
    jobs = [dict(cmd=[b, "rc"], env={"RC_PARAMS": "seed=%d max_success=%d max_size=100" % (seed * 131 + i, per)}, tag="rc") for i in range(n)]
    wr = core.run_workers(PROP, jobs)
    res.absorb(wr, "rc")
    collect(res, wr)
    iters = 300000 if quick else 20000000
    jobs = [dict(cmd=[b, "stress", str(t), str(iters), str(seed * 17 + t)], tag="stress") for t in (2, 4, 8, 16)]
    wr = core.run_workers(PROP, jobs, max_parallel=1)
    res.absorb(wr, "stress")
    collect(res, wr)


def replay(path):
    b = _build()
    env = dict(os.environ)
    env.update(core.SAN_RUN_ENV)
    p = subprocess.run([b, "replay", path], env=env, stdout=subprocess.PIPE, stderr=subprocess.STDOUT, text=True)
    return p.returncode == 0 and "REPLAY-PASS" in p.stdout, p.stdout[-2000:]
