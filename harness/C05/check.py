"""C05 -- distributed PTG results do not depend on process count or message path (engine E5 on 2..4 MPI ranks)."""
import os
import sys
sys.path.insert(0, os.path.join(os.path.dirname(os.path.abspath(__file__)), "..", "ptg"))
import engine  # noqa: E402

PROP = "C05"


def prebuild():
    engine.prebuild()


def run(tier, seed, res):
    engine.known_findings(PROP, res, ["C01", "C02"])
    engine.regressions(PROP, res, ["C01", "C02"])
    quick = tier == "quick"
    engine.run(PROP, "c05", tier, seed, res, props=["C01", "C02"], workers=8 if quick else 12,
               structures=3 if quick else 40, instances=6 if quick else 16,
               extra=["--dynamic-termdet"])      # half of the structures are compiled with ptgpp -D: the four-counter detector runs for real (C11's end-to-end part)
    res.rule += ("; every instance is run on 2..4 MPI ranks with a generated placement table, broadcast topology (star/chain/binomial), "
                 "short-message limit and tile size on both sides of it; the oracle is the reference interpreter (exactly-once on the rank the "
                 "placement names, input values, final collection contents gathered per owner), so a result that depended on the process "
                 "count or message path would differ from it")
    res.assumptions.append("every collection element a task names directly is owned by the task's own rank (PTG rule; the ownership tables are derived from the placement by the reference)")
    res.assumptions.append("one remote datatype per output flow (the documented unsupported case of several remote shapes in short messages is never generated)")


def replay(path):
    return engine.replay(path, ["C01", "C02"])
