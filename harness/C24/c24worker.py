#!/usr/bin/env python3
"""C24 worker: generated JDF texts (valid / mutated / over-limit / noise) -> parsec-ptgpp twice -> oracle.

Outcome A: exit 0, both runs byte-identical, generated C passes `cc -fsyntax-only`.
Outcome B: exit != 0 (normal termination), non-empty diagnostic.
Anything else is a violation (signal, exit 0 with uncompilable C, silent failure, non-deterministic output).
"""
import argparse
import hashlib
import json
import os
import re
import shutil
import subprocess
import sys

HERE = os.path.dirname(os.path.abspath(__file__))
sys.path.insert(0, os.path.join(HERE, "..", "ptg"))
sys.path.insert(0, os.path.join(os.path.dirname(os.path.dirname(HERE)), "lib", "py"))

from hypothesis import HealthCheck, Phase, given, seed, settings, strategies as st  # noqa: E402

import ptggen  # noqa: E402
from ptgstrat import build_program, sint, pick  # noqa: E402
from vf import core  # noqa: E402

PTG_DIR = os.path.join(HERE, "..", "ptg")


def limits():
    txt = open(os.path.join(core.tree_dir("hooks"), "parsec", "include", "parsec", "parsec_options.h")).read()
    out = {}
    for k in ("MAX_LOCAL_COUNT", "MAX_PARAM_COUNT", "MAX_DEP_IN_COUNT", "MAX_DEP_OUT_COUNT"):
        out[k] = int(re.search(r"#define\s+%s\s+(\d+)" % k, txt).group(1))
    return out


# --------------------------------------------------------------------------- oracle

class Verdict:
    def __init__(self, outcome, msg="", detail=""):
        self.outcome, self.msg, self.detail = outcome, msg, detail   # outcome: 'A' | 'B' | 'VIOLATION'


def run_ptgpp(ptgpp, text, wd, name="x", extra=()):
    os.makedirs(wd, exist_ok=True)
    with open(os.path.join(wd, name + ".jdf"), "w", errors="surrogateescape") as f:
        f.write(text)
    env = dict(os.environ, ASAN_OPTIONS="detect_leaks=0:abort_on_error=1", UBSAN_OPTIONS="halt_on_error=0:print_stacktrace=0")
    try:
        p = subprocess.run([ptgpp, "-E", "-i", name + ".jdf", "-o", name, "--noline"] + list(extra), cwd=wd, env=env,
                           stdout=subprocess.PIPE, stderr=subprocess.STDOUT, timeout=60)
    except subprocess.TimeoutExpired:
        return "timeout", b""
    return p.returncode, p.stdout


def judge_text(text, workdir, trees=("hooks",), backend="dynamic-hash-table"):
    inc, defs, libs, san = core.tree_flags("hooks")
    first = None
    for tree in trees:
        ptgpp = os.path.join(core.tree_dir(tree), "parsec", "interfaces", "ptg", "ptg-compiler", "parsec-ptgpp")
        res = []
        for rep in (0, 1):
            wd = os.path.join(workdir, "%s%d" % (tree, rep))
            shutil.rmtree(wd, ignore_errors=True)
            rc, out = run_ptgpp(ptgpp, text, wd, extra=["-M", backend])
            res.append((rc, out, wd))
        (rc, out, wd), (rc2, out2, wd2) = res
        if rc == "timeout" or rc2 == "timeout":
            return Verdict("INCONCLUSIVE", "ptgpp timed out (60 s)")
        if isinstance(rc, int) and rc < 0:
            return Verdict("VIOLATION", "parsec-ptgpp [%s build] died with signal %d" % (tree, -rc), out[-600:].decode(errors="replace"))
        if tree == "san" and (b"AddressSanitizer" in out):
            return Verdict("VIOLATION", "parsec-ptgpp memory error (ASan)", out[-800:].decode(errors="replace"))
        if rc != rc2:
            return Verdict("VIOLATION", "two runs on the same input exit with %s and %s" % (rc, rc2))
        cfile, hfile = os.path.join(wd, "x.c"), os.path.join(wd, "x.h")
        if rc == 0:
            if not os.path.exists(cfile):
                return Verdict("VIOLATION", "exit status 0 but no C file was produced")
            for fn in ("x.c", "x.h"):
                a = open(os.path.join(wd, fn), "rb").read() if os.path.exists(os.path.join(wd, fn)) else None
                b = open(os.path.join(wd2, fn), "rb").read() if os.path.exists(os.path.join(wd2, fn)) else None
                if a != b:
                    return Verdict("VIOLATION", "compiling the same input twice yields different %s" % fn)
            if tree == "hooks":
                cdefs = [x for x in defs if x != "-DBUILDING_PARSEC"]
                p = subprocess.run(["gcc", "-std=gnu11", "-fsyntax-only", "-w", "x.c", "-I" + PTG_DIR, "-I."] + cdefs + inc, cwd=wd,
                                   stdout=subprocess.PIPE, stderr=subprocess.STDOUT, text=True, errors="replace")
                if p.returncode != 0:
                    errs = [l for l in p.stdout.splitlines() if "error" in l]
                    return Verdict("VIOLATION", "parsec-ptgpp accepted the input (exit 0) but the generated C does not compile: %s" % (errs[0][:300] if errs else p.stdout[-300:]),
                                   "\n".join(errs[:5]))
            v = "A"
        else:
            if len(out.strip()) == 0:
                return Verdict("VIOLATION", "parsec-ptgpp exited with status %s without any diagnostic" % rc)
            v = "B"
        if first is None:
            first = v
        elif first != v:
            return Verdict("VIOLATION", "gcc-built and sanitizer-built ptgpp disagree on accepting the input")
    return Verdict(first)


# --------------------------------------------------------------------------- generators

TOKEN = re.compile(r"%\{.*?%\}|BODY.*?\nEND|\"[^\"]*\"|[A-Za-z_][A-Za-z_0-9]*|\d+|->|<-|\.\.|==|!=|<=|>=|&&|\|\||\s+|.", re.S)


def tokenize(text):
    return TOKEN.findall(text)


ACCESS = ["RW", "READ", "WRITE", "CTL"]


def kind_of(name):
    """identifier kinds of the generated programs (engine E5 naming): task classes T<n>, collections D / E,
    flows A B C X<n> Y, everything else (globals, parameters, derived locals) is integer valued"""
    if re.match(r"^T\d+$", name):
        return "class"
    if name in ("D", "E"):
        return "collection"
    if re.match(r"^(A|B|C|Y|X\d+)$", name):
        return "flow"
    return "int"


def mutate(draw, text, declared):
    toks = tokenize(text)
    # embedded C (prologue/epilogue %{ %}, inline expressions, BODY..END) is opaque to the JDF compiler: never mutated
    idx = [i for i, t in enumerate(toks) if not t.isspace() and not t.startswith("%{") and not t.startswith("BODY")]
    start = next((i for i in idx if toks[i].startswith("T0")), 0)     # keep the prologue/globals mostly intact
    idx = [i for i in idx if i >= start] or idx
    kinds = []
    n = draw(sint(1, 3))
    for _ in range(n):
        op = pick(draw, ["delete", "dup", "swap", "access", "arrow", "number", "rename", "drop_body", "dup_class", "insert", "undeclared"])
        i = idx[draw(sint(0, len(idx) - 1))]
        kinds.append(op)
        if op == "delete":
            toks[i] = ""
        elif op == "dup":
            toks[i] = toks[i] + " " + toks[i]
        elif op == "swap":
            j = idx[min(len(idx) - 1, idx.index(i) + 1)]
            toks[i], toks[j] = toks[j], toks[i]
        elif op == "access":
            cand = [k for k in idx if toks[k] in ACCESS]
            if cand:
                k = cand[draw(sint(0, len(cand) - 1))]
                toks[k] = pick(draw, ACCESS)
        elif op == "arrow":
            cand = [k for k in idx if toks[k] in ("->", "<-")]
            if cand:
                k = cand[draw(sint(0, len(cand) - 1))]
                toks[k] = "<-" if toks[k] == "->" else "->"
        elif op == "number":
            cand = [k for k in idx if toks[k].isdigit()]
            if cand:
                k = cand[draw(sint(0, len(cand) - 1))]
                toks[k] = str(max(0, int(toks[k]) + pick(draw, [-1, 1, 7])))
        elif op == "rename":
            # rename one identifier occurrence to another *declared* identifier (parameters, globals, flows, classes)
            # The replacement has the same *kind* (integer-valued name / flow / task class / collection): the C types of
            # globals are opaque strings to ptgpp, so an int expression using a collection pointer is a C type error that
            # no JDF-level check can see (domain restriction, like the embedded C blocks).
            cand = [k for k in idx if re.match(r"^[A-Za-z_]\w*$", toks[k]) and toks[k] in declared]
            if cand:
                k = cand[draw(sint(0, len(cand) - 1))]
                same = [n for n in sorted(declared) if kind_of(n) == kind_of(toks[k])]
                toks[k] = pick(draw, same)
        elif op == "undeclared":
            cand = [k for k in idx if re.match(r"^[A-Za-z_]\w*$", toks[k]) and toks[k] in declared]
            if cand:
                k = cand[draw(sint(0, len(cand) - 1))]
                # one fresh name per identifier kind: ptgpp implicitly declares an unknown name used as a collection in a
                # dependency (type parsec_data_collection_t*), so the same fresh name put in a collection position by one
                # mutation and in an integer position by another is the kind clash excluded for renames above
                toks[k] = {"int": "zz9", "collection": "ZZD", "flow": "ZZF", "class": "ZZT9"}[kind_of(toks[k])]
        elif op == "drop_body":
            cand = [k for k in idx if toks[k].startswith("BODY")]
            if cand:
                toks[cand[draw(sint(0, len(cand) - 1))]] = ""
        elif op == "drop_end":
            cand = [k for k in idx if toks[k].startswith("BODY")]
            if cand:
                k = cand[draw(sint(0, len(cand) - 1))]
                toks[k] = toks[k][:-3]
        elif op == "unbalance":
            cand = [k for k in idx if toks[k].startswith("%{")]
            if cand:
                k = cand[draw(sint(0, len(cand) - 1))]
                toks[k] = toks[k][:-2] if draw(st.booleans()) else toks[k][2:]
        elif op == "dup_class":
            txt = "".join(toks)
            m = list(re.finditer(r"^T\d+\(.*?^END\n", txt, re.S | re.M))
            if m:
                mm = m[draw(sint(0, len(m) - 1))]
                txt = txt + "\n" + mm.group(0)
                toks = tokenize(txt)
                idx = [i for i, t in enumerate(toks) if not t.isspace()]
        elif op == "insert":
            toks[i] = toks[i] + " " + pick(draw, ["(", ")", "?", ":", "..", "->", "<-", "k", "0", "[", "]", ";", "NEW", "NULL", "RW", "=", ",", "-", "%", "&&", "<"])
    return "".join(toks), kinds


def limit_program(kind, n):
    """JDF with n items of the limited kind (flows, in deps, out deps, locals)."""
    head = 'extern "C" %{\n#include "vs_support.h"\n%}\nD [type = "parsec_data_collection_t*"]\nNT [type = int]\n\nTASK(k)\n  k = 0 .. NT\n'
    body = "BODY\n{ (void)k; }\nEND\n"
    if kind == "locals":
        loc = "".join("  l%d = k+%d\n" % (i, i) for i in range(n - 1))
        return head + loc + ": D(k)\n  READ B <- (k == 0) ? D(k) : B TASK(k-1)\n         -> (k != NT) ? B TASK(k+1)\n" + body
    if kind == "in_deps":
        deps = "  READ B <- (k == 0) ? D(k)\n" + "".join("         <- (k == %d) ? B TASK(k-1)\n" % (i + 1) for i in range(n - 1))
        return head + ": D(k)\n" + deps + "         -> (k < %d) ? B TASK(k+1)\n" % (n - 1) + body
    if kind == "out_deps":
        deps = "  READ B <- D(k)\n" + "".join("         -> (k == %d) ? B OTHER(k, %d)\n" % (i, i) for i in range(n))
        other = "\nOTHER(k, j)\n  k = 0 .. NT\n  j = 0 .. %d\n: D(k)\n  READ B <- (k == j) ? B TASK(k) : D(k)\nBODY\n{ (void)k; }\nEND\n" % max(0, n - 1)
        return head + ": D(k)\n" + deps + body + other
    if kind == "read_flows":
        fl = "".join("  READ F%d <- D(k)\n" % i for i in range(n))
        return head + ": D(k)\n" + fl + body
    if kind == "write_flows":
        fl = "".join("  RW F%d <- D(k)\n          -> D(k)\n" % i for i in range(n))
        return head + ": D(k)\n" + fl + body
    if kind == "mixed_flows":
        # n flows in total: READ, WRITE-only (NEW) and control flows mixed, so that neither the READ nor the WRITE count alone
        # reaches the limit (the total is what the generated task structure is sized by)
        fl = ""
        for i in range(n):
            m = i % 3
            if m == 0:
                fl += "  READ F%d <- D(k)\n" % i
            elif m == 1:
                fl += "  WRITE F%d <- NEW\n           -> D(k)\n" % i
            else:
                fl += "  CTL F%d <- (k > 0) ? F%d TASK(k-1)\n         -> (k < NT) ? F%d TASK(k+1)\n" % (i, i, i)
        return head + ": D(k)\n" + fl + body
    if kind == "ctl_in_deps":
        deps = "  READ B <- D(k)\n  CTL X <- (k == 1) ? X TASK(k-1)\n" + "".join("        <- (k == %d) ? X TASK(k-1)\n" % (i + 2) for i in range(n - 1))
        return head + ": D(k)\n" + deps + "        -> (k < %d) ? X TASK(k+1)\n" % n + body
    if kind == "ctl_out_deps":
        deps = "  READ B <- D(k)\n  CTL X <- (k > 1000) ? X TASK(k-1)\n" + "".join("        -> (k == %d) ? X OTHER(k, %d)\n" % (i, i) for i in range(n))
        other = "\nOTHER(k, j)\n  k = 0 .. NT\n  j = 0 .. %d\n: D(k)\n  READ B <- D(k)\n  CTL X <- (k == j) ? X TASK(k)\nBODY\n{ (void)k; }\nEND\n" % max(0, n - 1)
        return head + ": D(k)\n" + deps + body + other
    raise ValueError(kind)


LIMIT_OF = {"locals": "MAX_LOCAL_COUNT", "in_deps": "MAX_DEP_IN_COUNT", "out_deps": "MAX_DEP_OUT_COUNT", "read_flows": "MAX_PARAM_COUNT", "write_flows": "MAX_PARAM_COUNT",
            "mixed_flows": "MAX_PARAM_COUNT", "ctl_in_deps": "MAX_DEP_IN_COUNT", "ctl_out_deps": "MAX_DEP_OUT_COUNT"}


class Stats:
    def __init__(self):
        self.evaluations = 0
        self.nontrivial = set()
        self.labels = {}
        self.samples = []
        self.failure = None
        self.inconclusive = 0

    def label(self, k, n=1):
        self.labels[k] = self.labels.get(k, 0) + n


STATS = Stats()


def make_test(args, workroot, LIM):
    trees = ("hooks", "san") if args.san else ("hooks",)

    @seed(args.seed)
    @settings(max_examples=args.cases, database=None, deadline=None, suppress_health_check=list(HealthCheck), report_multiple_bugs=False,
              phases=[Phase.generate, Phase.shrink])
    @given(st.data())
    def test(data):
        draw = data.draw
        cls = pick(draw, ["valid", "mutated", "mutated", "mutated", "limit", "noise"])
        expect = None
        kinds = []
        if cls in ("valid", "mutated", "noise"):
            prog = build_program(draw, dict(max_classes=3, again=draw(st.booleans())))
            text = ptggen.emit_jdf(prog, "x", {})
            declared = set(prog.globals) | {"D", "E", "TS", "NTD", "NTE"} | {c.name for c in prog.classes}
            for c in prog.classes:
                declared |= {d.name for d in c.dims} | {f.name for f in c.flows} | {l[0] for l in c.locals}
            if cls != "valid":
                # Embedded C is opaque to ptgpp, so it must not depend on the JDF-level names a mutation may rename or delete
                # (a body using flow `A` after the flow was renamed is a C error no JDF-level check can see): the programs that
                # get mutated carry neutral bodies and plain expressions instead of inline C.
                text = re.sub(r"BODY.*?\nEND", "BODY\n{\n    /* nothing */\n}\nEND", text, flags=re.S)
                text = re.sub(r"%\{ return (.*?); %\}", r"(\1)", text)
                base_text = text
            if cls == "valid":
                expect = "A"
            elif cls == "mutated":
                text, kinds = mutate(draw, text, declared)
            else:
                toks = tokenize(text)
                cand = [i for i, t in enumerate(toks) if not t.startswith("%{") and not t.startswith("BODY") and len(t) > 0]
                # the global declarations carry C type strings ([type = "..."], [type = int]) that ptgpp copies verbatim: like the
                # embedded C they are outside what a JDF-level check can validate, so the noise starts at the first task class
                first_cls = next((i for i in cand if toks[i].startswith("T0")), 0)
                cand = [i for i in cand if i >= first_cls] or cand
                for _ in range(draw(sint(1, 8))):
                    i = cand[draw(sint(0, len(cand) - 1))]
                    b = bytearray(toks[i].encode("latin-1", "replace"))
                    b[draw(sint(0, len(b) - 1))] = draw(sint(1, 255))
                    toks[i] = b.decode("latin-1")
                text = "".join(toks)
                kinds = ["noise"]
        else:
            kind = pick(draw, sorted(LIMIT_OF))
            lim = LIM[LIMIT_OF[kind]]
            n = pick(draw, [lim - 1, lim, lim + 1, lim + 2, 2 * lim])
            text = limit_program(kind, n)
            kinds = ["%s=%d(limit %d)" % (kind, n, lim)]
            if n > lim:
                expect = "B"
        backend = pick(draw, ["dynamic-hash-table", "index-array"])
        if cls in ("mutated", "noise"):
            # the opaque C blocks must still be the same blocks (a mutation that opens/closes one turns JDF text into C text)
            orig = base_text
            sig = lambda t: [x for x in tokenize(t) if x.startswith("%{") or x.startswith("BODY")]
            if cls == "noise" and sig(orig) != sig(text):
                STATS.label("excluded_opaque_block_changed")
                return
            if cls == "mutated" and "dup_class" not in kinds and sig(orig) != sig(text) and "drop_body" not in kinds:
                STATS.label("excluded_opaque_block_changed")
                return
        wd = os.path.join(workroot, "c")
        v = judge_text(text, wd, trees, backend)
        STATS.evaluations += 1
        STATS.label("class_" + cls)
        STATS.label("outcome_" + v.outcome)
        for k in kinds:
            STATS.label("mut_" + re.sub(r"=.*", "", k))
        if v.outcome == "INCONCLUSIVE":
            STATS.inconclusive += 1
            return
        case = dict(cls=cls, kinds=kinds, backend=backend, text=text)
        reached = bool(re.search(r"^T\d+\(|^TASK\(", text, re.M))
        if cls != "valid" and reached:
            STATS.nontrivial.add(hashlib.sha1(text.encode("latin-1", "replace")).hexdigest())
            if len(STATS.samples) < 5 and cls == "mutated":
                STATS.samples.append(dict(cls=cls, mutations=kinds, outcome=v.outcome, excerpt=text[text.find("T0("):][:300]))
        bad = None
        if v.outcome == "VIOLATION":
            bad = v.msg
        elif expect is not None and v.outcome != expect:
            if expect == "B":
                bad = "a program exceeding a runtime limit (%s) was accepted by parsec-ptgpp" % kinds[0]
            else:
                bad = "a valid generated program was rejected by parsec-ptgpp"
        if bad:
            STATS.failure = dict(msg=bad, detail=v.detail, replay=case)
            raise AssertionError(bad)
    return test


def replay(path, san):
    case = json.load(open(path))
    wd = os.path.join(core.WORK, "run", "c24-replay-%d" % os.getpid())
    try:
        v = judge_text(case["text"], wd, ("hooks", "san") if san else ("hooks",), case.get("backend", "dynamic-hash-table"))
        LIM = limits()
        bad = None
        if v.outcome == "VIOLATION":
            bad = v.msg
        elif case["cls"] == "valid" and v.outcome != "A":
            bad = "a valid generated program was rejected"
        elif case["cls"] == "limit":
            m = re.match(r"(\w+)=(\d+)", case["kinds"][0])
            if int(m.group(2)) > LIM[LIMIT_OF[m.group(1)]] and v.outcome != "B":
                bad = "a program exceeding a runtime limit was accepted"
        if bad:
            print("REPLAY-FAIL " + bad)
            return 1
        print("REPLAY-PASS")
        return 0
    finally:
        shutil.rmtree(wd, ignore_errors=True)


def main():
    ap = argparse.ArgumentParser()
    ap.add_argument("--seed", type=int, default=1)
    ap.add_argument("--cases", type=int, default=50)
    ap.add_argument("--san", action="store_true")
    ap.add_argument("--out", default=None)
    ap.add_argument("--replay", default=None)
    a = ap.parse_args()
    core.ensure_tree("hooks")
    if a.san:
        core.ensure_tree("san")
    if a.replay:
        sys.exit(replay(a.replay, a.san))
    workroot = os.path.join(core.WORK, "run", "c24-%d" % os.getpid())
    os.makedirs(workroot, exist_ok=True)
    rc = 0
    try:
        make_test(a, workroot, limits())()
    except AssertionError:
        rc = 1
    except Exception:
        if STATS.failure is None:
            import traceback
            traceback.print_exc()
            rc = 2
        else:
            rc = 1
    finally:
        shutil.rmtree(workroot, ignore_errors=True)
    rep = dict(evaluations=STATS.evaluations, nontrivial=sorted(STATS.nontrivial), labels=STATS.labels, samples=STATS.samples,
               failure=STATS.failure, inconclusive=STATS.inconclusive)
    if a.out:
        with open(a.out, "w") as f:
            json.dump(rep, f)
    else:
        rep["nontrivial"] = len(rep["nontrivial"])
        print(json.dumps(rep, indent=1)[:3000])
    sys.exit(rc)


if __name__ == "__main__":
    main()
