"""C24 -- the PTG compiler accepts only programs it can compile (valid / mutated / over-limit / noisy JDF -> ptgpp twice -> cc)."""
import glob
import json
import os
import subprocess
import sys

from vf import core

PROP = "C24"
HERE = os.path.dirname(os.path.abspath(__file__))
WORKER = os.path.join(HERE, "c24worker.py")


def prebuild():
    core.ensure_tree("hooks")
    core.ensure_tree("san")


def run(tier, seed, res):
    prebuild()
    quick = tier == "quick"
    rd = core.run_dir(PROP)
    # regression corpus first
    for path in sorted(glob.glob(os.path.join(core.VERIF, "corpus", PROP, "regress", "*.json"))):
        ok, msg = replay(path)
        res.coverage["regression_replays"] = res.coverage.get("regression_replays", 0) + 1
        if not ok:
            res.violations.append(core.Violation("regression case fails: " + msg[-400:], replay_path=path))
    n = 16
    cases = 45 if quick else 2500
    jobs = []
    for i in range(n):
        out = os.path.join(rd, "rep%d.json" % i)
        cmd = ["python3-vt", WORKER, "--seed", str(seed * 977 + i), "--cases", str(cases), "--out", out]
        if i % 4 == 0:
            cmd.append("--san")     # a quarter of the workers also run the ASan/UBSan-built ptgpp on every input
        jobs.append(dict(cmd=cmd, tag="c24", out=out))
    wr = core.run_workers(PROP, jobs, san=False)
    hashes, labels = set(), {}
    for j in jobs:
        if not os.path.exists(j["out"]):
            continue
        rep = json.load(open(j["out"]))
        res.evaluations += rep["evaluations"]
        hashes.update(rep["nontrivial"])
        for k, v in rep["labels"].items():
            labels[k] = labels.get(k, 0) + v
        for s in rep["samples"]:
            if len(res.samples) < 6:
                res.samples.append(s)
        f = rep.get("failure")
        if f:
            res.violations.append(core.Violation(f["msg"] + (" | " + f["detail"][:300] if f.get("detail") else ""),
                                                 replay_text=json.dumps(f["replay"], indent=1), ext="json"))
    for c in wr.crashes:
        if not os.path.exists(jobs[c["worker"]]["out"]):
            res.inconclusive = "worker %d died: %s" % (c["worker"], c["log_tail"][-400:])
    res.distinct_nontrivial = len(hashes)
    res.coverage["labels"] = labels
    res.rule = ("case = JDF text of one of four classes: valid (engine E5 program), mutated (1-3 token-level mutations of a valid "
                "program outside its opaque embedded-C blocks: delete/duplicate/swap token, change access keyword or arrow, +-1 on a "
                "number, rename to another declared or to an undeclared identifier, drop a BODY, duplicate a task class, insert an "
                "operator), limit (flows / in-deps / out-deps / locals at limit-1, limit, limit+1, limit+2, 2*limit; limits read "
                "from the tree's parsec_options.h), noise (1-8 random bytes in JDF-level tokens); oracle = exit 0 => two runs "
                "byte-identical and cc -fsyntax-only accepts the C; exit != 0 => normal termination with a diagnostic; valid must be "
                "accepted; over-limit must be rejected; non-trivial = not the unmodified valid class and the text still reaches a task "
                "class definition; distinct = distinct texts")
    res.assumptions = ["embedded C (prologue, inline_c expressions, BODY..END) is opaque to parsec-ptgpp: mutations never touch it and "
                       "cases whose mutation changes the set of opaque blocks are excluded (counted)",
                       "cc -fsyntax-only with the build tree's include path stands for 'compiles without errors'"]


def replay(path):
    p = subprocess.run(["python3-vt", WORKER, "--replay", path, "--san"], stdout=subprocess.PIPE, stderr=subprocess.STDOUT, text=True)
    return "REPLAY-PASS" in p.stdout, p.stdout[-1200:]
