/* C shim for C07: builds a harness-owned task class (flows, input dependencies with harness condition functions, flags and
 * dependencies_goal computed the way parsec-ptgpp computes them in jdf2c.c:jdf_generate_one_function) plus one task instance
 * and one parsec_dependency_t word, and calls the task class' update_deps function
 * (parsec_update_deps_with_mask / parsec_update_deps_with_counter, exported by libparsec.so) exactly like
 * parsec_release_local_OUT_dependencies does:  tc->update_deps(origin->taskpool, task, deps, origin, origin_flow, dest_flow).
 *
 * Per-instance flow kinds (what the *generated instance* makes of the flow):
 *   0 DATA_TASK   data flow whose active input comes from a task            -> 1 release
 *   1 DATA_COLL   data flow whose active input is read from a collection    -> no release (mask: IN bit)
 *   2 CTL_TASK    control flow with one active input                        -> 1 release
 *   3 CTL_NONE    control flow, every guard false                           -> no release (mask: IN bit)
 *   4 CTL_GATHER  control gather of n inputs (counter mode only)            -> n releases
 *   5 WRITE_ONLY  write-only flow whose IN dep only names the arena         -> no release (mask: IN bit)
 *   6 CTL_MULTI   control flow with n separately active inputs (counter)    -> n releases
 * shape selects how the dep_in[] array is laid out (guards before / after the active one).
 */
#include "parsec/parsec_config.h"
#include "parsec/parsec_internal.h"
#include "parsec/parsec_description_structures.h"
#include "parsec/interfaces/interface.h"
#include <stdio.h>
#include <stdlib.h>
#include <string.h>

enum { K_DATA_TASK = 0, K_DATA_COLL, K_CTL_TASK, K_CTL_NONE, K_CTL_GATHER, K_WRITE_ONLY, K_CTL_MULTI };

/* guard j of flow i is true iff bit j of locals[i] is set; the gather count of flow i is locals[i] >> 8 */
#define GUARDS(i) \
    static int32_t g##i##_0(const struct parsec_taskpool_s *tp, const parsec_assignment_t *l) { (void)tp; return (l[i].value >> 0) & 1; } \
    static int32_t g##i##_1(const struct parsec_taskpool_s *tp, const parsec_assignment_t *l) { (void)tp; return (l[i].value >> 1) & 1; } \
    static int32_t g##i##_2(const struct parsec_taskpool_s *tp, const parsec_assignment_t *l) { (void)tp; return (l[i].value >> 2) & 1; } \
    static int32_t n##i(const struct parsec_taskpool_s *tp, const parsec_assignment_t *l) { (void)tp; return l[i].value >> 8; }
GUARDS(0) GUARDS(1) GUARDS(2) GUARDS(3) GUARDS(4) GUARDS(5) GUARDS(6) GUARDS(7) GUARDS(8) GUARDS(9)
GUARDS(10) GUARDS(11) GUARDS(12) GUARDS(13) GUARDS(14) GUARDS(15) GUARDS(16) GUARDS(17) GUARDS(18) GUARDS(19)
#define ROW(i) { g##i##_0, g##i##_1, g##i##_2, n##i }
static parsec_expr_op_int32_inline_func_t fn_tab[MAX_PARAM_COUNT][4] = {
    ROW(0), ROW(1), ROW(2), ROW(3), ROW(4), ROW(5), ROW(6), ROW(7), ROW(8), ROW(9),
    ROW(10), ROW(11), ROW(12), ROW(13), ROW(14), ROW(15), ROW(16), ROW(17), ROW(18), ROW(19) };

#define MAXDEP 4
typedef struct {
    parsec_task_class_t tc;
    parsec_task_t       task, origin;
    parsec_taskpool_t  *tp;
    parsec_flow_t       flows[MAX_PARAM_COUNT], origin_flow;
    parsec_dep_t        deps[MAX_PARAM_COUNT][MAXDEP];
    parsec_expr_t       conds[MAX_PARAM_COUNT][MAXDEP], gathers[MAX_PARAM_COUNT];
    char                names[MAX_PARAM_COUNT][8];
    parsec_dependency_t word;
} world_t;

static void add_dep(world_t *w, int i, int *nd, int guard /* -1 = unconditional */, int from_collection, int gather) {
    int j = (*nd)++;
    parsec_dep_t *d = &w->deps[i][j];
    memset(d, 0, sizeof(*d));
    if (guard >= 0) {
        parsec_expr_t *e = &w->conds[i][j];
        memset(e, 0, sizeof(*e));
        e->op = PARSEC_EXPR_OP_INLINE;
        e->u_expr.v_func.type = PARSEC_RETURN_TYPE_INT32;
        e->u_expr.v_func.func.inline_func_int32 = fn_tab[i][guard];
        d->cond = e;
    }
    if (gather) {
        parsec_expr_t *e = &w->gathers[i];
        memset(e, 0, sizeof(*e));
        e->op = PARSEC_EXPR_OP_INLINE;
        e->u_expr.v_func.type = PARSEC_RETURN_TYPE_INT32;
        e->u_expr.v_func.func.inline_func_int32 = fn_tab[i][3];
        d->ctl_gather_nb = e;
    }
    d->task_class_id = from_collection ? PARSEC_LOCAL_DATA_TASK_CLASS_ID : 1;
    d->dep_index = (uint8_t)j;
    d->flow = &w->origin_flow;
    d->belongs_to = &w->flows[i];
    w->flows[i].dep_in[j] = d;
}

/* mode 0 = mask, 1 = counter.  Returns NULL when the spec cannot be expressed in that mode. */
void *shim_c07_build(int mode, int nflows, const int *kind, const int *shape, const int *count) {
    if (nflows < 1 || nflows > MAX_PARAM_COUNT) return NULL;
    world_t *w = (world_t *)calloc(1, sizeof(world_t));
    w->tp = (parsec_taskpool_t *)calloc(1, sizeof(parsec_taskpool_t));
    int has_in_in = 0, has_gather = 0;
    parsec_dependency_t inputmask = 0;
    w->origin_flow.name = "O"; w->origin_flow.sym_type = PARSEC_SYM_INOUT; w->origin_flow.flow_flags = PARSEC_FLOW_ACCESS_RW;
    for (int i = 0; i < nflows; i++) {
        parsec_flow_t *f = &w->flows[i];
        int nd = 0, flow_has_in = 0, lv = 0;
        snprintf(w->names[i], sizeof(w->names[i]), "F%d", i);
        f->name = w->names[i]; f->flow_index = (uint8_t)i; f->sym_type = PARSEC_SYM_IN;
        int sh = shape[i];
        switch (kind[i]) {
        case K_DATA_TASK:
            f->flow_flags = PARSEC_FLOW_ACCESS_READ;
            if (sh == 0) add_dep(w, i, &nd, -1, 0, 0);
            else if (sh == 1) { add_dep(w, i, &nd, 0, 1, 0); add_dep(w, i, &nd, 1, 0, 0); lv = 2; flow_has_in = 1; }
            else { add_dep(w, i, &nd, 0, 0, 0); add_dep(w, i, &nd, 1, 0, 0); lv = (sh & 1) ? 1 : 2; }
            break;
        case K_DATA_COLL:
            f->flow_flags = PARSEC_FLOW_ACCESS_RW; flow_has_in = 1;
            if (sh == 0) add_dep(w, i, &nd, -1, 1, 0);
            else if (sh == 1) { add_dep(w, i, &nd, 0, 1, 0); add_dep(w, i, &nd, -1, 0, 0); lv = 1; }
            else { add_dep(w, i, &nd, 0, 0, 0); add_dep(w, i, &nd, 1, 1, 0); lv = 2; }
            break;
        case K_CTL_TASK:
            f->flow_flags = PARSEC_FLOW_ACCESS_NONE;
            if (sh == 0) add_dep(w, i, &nd, -1, 0, 0);
            else { add_dep(w, i, &nd, 0, 0, 0); add_dep(w, i, &nd, 1, 0, 0); lv = (sh & 1) ? 2 : 1; flow_has_in = 1; }
            break;
        case K_CTL_NONE:
            f->flow_flags = PARSEC_FLOW_ACCESS_NONE; flow_has_in = 1;
            add_dep(w, i, &nd, 0, 0, 0); if (sh) add_dep(w, i, &nd, 1, 0, 0);
            lv = 0;
            break;
        case K_CTL_GATHER:
            if (mode == 0) { free(w->tp); free(w); return NULL; }   /* "Cannot use control gather magic with the USE_DEPS_MASK" */
            f->flow_flags = PARSEC_FLOW_ACCESS_NONE; has_gather = 1;
            if (sh == 0) add_dep(w, i, &nd, -1, 0, 1);
            else { add_dep(w, i, &nd, 0, 0, 0); add_dep(w, i, &nd, 1, 0, 1); lv = 2; flow_has_in = 1; }
            lv |= count[i] << 8;
            break;
        case K_WRITE_ONLY:
            f->flow_flags = PARSEC_FLOW_ACCESS_WRITE; flow_has_in = 1; f->sym_type = PARSEC_SYM_OUT;
            break;                                                  /* dep_in[0] == NULL */
        case K_CTL_MULTI:
            if (mode == 0 || count[i] < 1 || count[i] > 3) { free(w->tp); free(w); return NULL; }
            f->flow_flags = PARSEC_FLOW_ACCESS_NONE; flow_has_in = 1;
            for (int k = 0; k < 3; k++) add_dep(w, i, &nd, k, 0, 0);
            lv = (1 << count[i]) - 1;
            break;
        default: free(w->tp); free(w); return NULL;
        }
        if (flow_has_in) { f->flow_flags |= PARSEC_FLOW_HAS_IN_DEPS; has_in_in = 1; }
        w->task.locals[i].value = lv;
        inputmask |= (1 << i);
        w->tc.in[i] = f;
    }
    w->tc.name = "C07"; w->tc.task_class_id = 0; w->tc.nb_flows = (uint8_t)nflows; w->tc.nb_locals = (uint8_t)nflows;
    w->tc.flags = (has_in_in ? PARSEC_HAS_IN_IN_DEPENDENCIES : 0);
    if (mode == 0) { w->tc.flags |= PARSEC_USE_DEPS_MASK; w->tc.dependencies_goal = inputmask; w->tc.update_deps = parsec_update_deps_with_mask; }
    else { if (has_gather) w->tc.flags |= PARSEC_HAS_CTL_GATHER; w->tc.dependencies_goal = nflows; w->tc.update_deps = parsec_update_deps_with_counter; }
    w->task.task_class = &w->tc; w->task.taskpool = w->tp;
    w->origin.task_class = &w->tc; w->origin.taskpool = w->tp;
    w->word = 0;
    return w;
}
void shim_c07_free(void *p) { world_t *w = (world_t *)p; free(w->tp); free(w); }
void shim_c07_reset(void *p) { ((world_t *)p)->word = 0; }
int shim_c07_word(void *p) { return (int)((world_t *)p)->word; }
/* one release towards flow `flow` of the task (what parsec_release_local_OUT_dependencies does before looking at the result) */
int shim_c07_release(void *p, int flow) {
    world_t *w = (world_t *)p;
    return w->tc.update_deps(w->origin.taskpool, &w->task, &w->word, &w->origin, &w->origin_flow, &w->flows[flow]);
}
