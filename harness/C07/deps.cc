// C07 -- A task becomes ready exactly once, when its last input arrives (mask and counter dependency tracking).
//
// case = (tracking mode, 1..6 flows with a per-instance kind/shape/count (see shim.c), the list of required releases dealt to
//         `pre` (issued sequentially before the threads start), to 1..4 threads, or withheld; schedule bytes)
// Each release is one call of tc->update_deps (parsec_update_deps_with_mask / _with_counter) on the shared dependency word,
// exactly as parsec_release_local_OUT_dependencies issues it.  Preconditions kept by construction: mask mode -- every release
// targets a distinct flow bit that needs a task input; counter mode -- never more releases than the instance's goal.
// Oracle: number of calls returning "ready" == 1 when all N required releases were issued, else 0; the ready call is the last
// one to commit (under dsched the atomic update is the last hook of a call, so return order == atomic order on the word), i.e.
// it is only reported once all N releases have been performed.
// modes: rc | exh <part> <nparts> | stress <T> <rounds> <seed> | replay <file>
#include <algorithm>
#include <atomic>
#include <thread>
#include "hcommon.hpp"
#include <rapidcheck.h>

extern "C" {
void *shim_c07_build(int mode, int nflows, const int *kind, const int *shape, const int *count);
void shim_c07_free(void *); void shim_c07_reset(void *); int shim_c07_word(void *); int shim_c07_release(void *, int flow);
}

enum { K_DATA_TASK = 0, K_DATA_COLL, K_CTL_TASK, K_CTL_NONE, K_CTL_GATHER, K_WRITE_ONLY, K_CTL_MULTI, NKINDS };

struct Spec {
    int mode = 0; std::vector<int> kind, shape, count;
    // releases the instance needs, as flow indices (independent of the code under test)
    std::vector<int> required() const {
        std::vector<int> r;
        for (size_t i = 0; i < kind.size(); i++) {
            int n = 0;
            switch (kind[i]) { case K_DATA_TASK: case K_CTL_TASK: n = 1; break; case K_CTL_GATHER: case K_CTL_MULTI: n = count[i]; break; default: n = 0; }
            for (int k = 0; k < n; k++) r.push_back((int)i);
        }
        return r;
    }
    bool has_in_bits() const { for (int k : kind) if (k == K_DATA_COLL || k == K_CTL_NONE || k == K_WRITE_ONLY) return true; return false; }
    void *build() const { return shim_c07_build(mode, (int)kind.size(), kind.data(), shape.data(), count.data()); }
};

struct Case {
    int sparse = 0; Spec spec;
    std::vector<int> pre;                    // flow indices released by main before the threads
    std::vector<std::vector<int>> prog;      // flow indices released by each thread, in order
    std::vector<uint8_t> sched;
    std::string repr() const {
        std::ostringstream o;
        o << "C07 sparse " << sparse << " mode " << spec.mode << " threads " << prog.size() << "\n";
        o << "flows"; for (size_t i = 0; i < spec.kind.size(); i++) o << " " << spec.kind[i] << " " << spec.shape[i] << " " << spec.count[i]; o << "\n";
        o << "pre " << hc::ints(pre) << "\n";
        for (auto &p : prog) o << "prog " << hc::ints(p) << "\n";
        o << "sched" << hc::bytes(sched) << "\n";
        return o.str();
    }
    static Case parse(const std::string &s) {
        Case c; std::istringstream in(s); std::string line;
        while (std::getline(in, line)) {
            std::istringstream ls(line); std::string w; ls >> w;
            if (w == "C07") hc::header_kv(ls, [&](const std::string &k, int v) { if (k == "sparse") c.sparse = v; else if (k == "mode") c.spec.mode = v; });
            else if (w == "flows") { auto v = hc::rest_ints(ls); for (size_t i = 0; i + 3 <= v.size(); i += 3) { c.spec.kind.push_back(v[i]); c.spec.shape.push_back(v[i + 1]); c.spec.count.push_back(v[i + 2]); } }
            else if (w == "pre") c.pre = hc::rest_ints(ls);
            else if (w == "prog") c.prog.push_back(hc::rest_ints(ls));
            else if (w == "sched") { for (int x : hc::rest_ints(ls)) c.sched.push_back((uint8_t)x); }
        }
        return c;
    }
};

struct RunInfo { bool nontrivial = false, full = false, overlap = false, invalid = false; int N = 0, issued = 0, racing_threads = 0; uint64_t steps = 0; };
struct Call { int thread, flow; uint64_t inv, resp; int ready; };

static std::string run_case(const Case &c, dsched::Chooser &ch, RunInfo *ri) {
    int T = (int)c.prog.size();
    std::vector<int> req = c.spec.required();
    // precondition check (replay files may be hand written): issued releases form a sub-multiset of the required ones
    std::vector<int> left(c.spec.kind.size(), 0); for (int f : req) left[f]++;
    int issued = 0; bool valid = true;
    auto take = [&](int f) { if (f < 0 || f >= (int)left.size() || left[f] <= 0) valid = false; else { left[f]--; issued++; } };
    for (int f : c.pre) take(f);
    for (auto &p : c.prog) for (int f : p) take(f);
    void *w = valid ? c.spec.build() : nullptr;
    if (!w || req.empty()) { ri->invalid = true; if (w) shim_c07_free(w); return ""; }
    ri->N = (int)req.size(); ri->issued = issued; ri->full = issued == ri->N;
    std::vector<Call> calls; std::string err;
    auto release = [&](int t, int f) {
        Call k; k.thread = t; k.flow = f; k.inv = dsched::now();
        k.ready = shim_c07_release(w, f);
        k.resp = dsched::now() + 1;
        calls.push_back(k);                      // commit point: no hook between the atomic update and here
    };
    for (int f : c.pre) release(-1, f);
    std::vector<std::function<void()>> bodies;
    for (int t = 0; t < T; t++) bodies.push_back([&, t]() { for (int f : c.prog[t]) release(t, f); });
    dsched::Outcome out = dsched::run(bodies, ch, 20000);
    ri->steps = out.steps;
    int nready = 0; size_t ready_at = 0;
    for (size_t i = 0; i < calls.size(); i++) if (calls[i].ready) { nready++; ready_at = i; }
    auto dumpcalls = [&]() { std::ostringstream o; o << " calls in commit order:"; for (auto &k : calls) o << " [t" << k.thread << " flow" << k.flow << (k.ready ? " READY" : "") << " @" << k.inv << "-" << k.resp << "]"; o << " word=0x" << std::hex << shim_c07_word(w); return o.str(); };
    if (ri->full) {
        if (nready == 0) err = "all " + std::to_string(ri->N) + " inputs were released but no release reported the task ready (task lost)";
        else if (nready > 1) err = "the task was reported ready " + std::to_string(nready) + " times";
        else if (ready_at != calls.size() - 1) err = "the task was reported ready by release #" + std::to_string(ready_at + 1) + " of " + std::to_string(ri->N) + ", before the remaining releases were performed";
    } else if (nready != 0) err = "the task was reported ready after only " + std::to_string(issued) + " of " + std::to_string(ri->N) + " releases";
    if (!err.empty()) err += ";" + dumpcalls();
    std::vector<bool> used(T, false);
    for (size_t i = 0; i < calls.size(); i++) for (size_t j = i + 1; j < calls.size(); j++)
        if (calls[i].thread >= 0 && calls[j].thread >= 0 && calls[i].thread != calls[j].thread && calls[i].inv < calls[j].resp && calls[j].inv < calls[i].resp) ri->overlap = true;
    for (auto &k : calls) if (k.thread >= 0) used[k.thread] = true;
    for (bool u : used) ri->racing_threads += u;
    ri->nontrivial = ri->N >= 2 && ri->racing_threads >= 2 && ri->overlap;
    shim_c07_free(w);
    return err;
}

static std::function<std::string()> g_current;
static void fatal_hook(const char *what) { vf::record_failure(g_current ? g_current() : std::string("?"), what); vf::dump(); }

static int do_replay(const char *path) {
    Case c = Case::parse(vf::slurp(path));
    g_current = [&]() { return c.repr(); };
    hc::FairByteChooser ch(c.sched.data(), c.sched.size(), c.sparse);
    RunInfo ri; std::string e = run_case(c, ch, &ri);
    if (ri.invalid) { printf("REPLAY-FAIL the file does not describe a valid case (releases must be a sub-multiset of the required ones)\n"); return 1; }
    if (e.empty()) { printf("REPLAY-PASS\n"); return 0; }
    printf("REPLAY-FAIL %s\n", e.c_str()); return 1;
}

// exhaustive: for a fixed list of instance specs with N <= 3 required releases (both modes, with and without IN-from-collection
// bits / empty controls / gathers), every way of dealing the releases (in every order) to {pre, thread 0..T-1, withheld} for
// 2 threads such that both get one, plus one release on each of 3 threads when N == 3, and every schedule (unbounded preemptions).
static std::vector<Spec> exh_specs() {
    auto S = [](int mode, std::vector<std::vector<int>> f) { Spec s; s.mode = mode; for (auto &x : f) { s.kind.push_back(x[0]); s.shape.push_back(x[1]); s.count.push_back(x[2]); } return s; };
    std::vector<Spec> v;
    for (int mode = 0; mode < 2; mode++) {
        v.push_back(S(mode, {{K_DATA_TASK, 0, 0}, {K_DATA_TASK, 0, 0}}));
        v.push_back(S(mode, {{K_DATA_TASK, 0, 0}, {K_CTL_TASK, 0, 0}, {K_DATA_TASK, 2, 0}}));
        v.push_back(S(mode, {{K_DATA_TASK, 1, 0}, {K_DATA_COLL, 0, 0}, {K_CTL_TASK, 1, 0}}));
        v.push_back(S(mode, {{K_CTL_NONE, 0, 0}, {K_DATA_TASK, 0, 0}, {K_WRITE_ONLY, 0, 0}, {K_DATA_TASK, 3, 0}, {K_DATA_COLL, 2, 0}}));
        v.push_back(S(mode, {{K_DATA_COLL, 1, 0}, {K_CTL_TASK, 2, 0}, {K_CTL_NONE, 1, 0}, {K_DATA_TASK, 0, 0}, {K_DATA_TASK, 1, 0}}));
    }
    v.push_back(S(1, {{K_CTL_GATHER, 0, 2}}));
    v.push_back(S(1, {{K_CTL_GATHER, 1, 3}}));
    v.push_back(S(1, {{K_DATA_TASK, 0, 0}, {K_CTL_GATHER, 0, 2}, {K_DATA_COLL, 0, 0}}));
    v.push_back(S(1, {{K_CTL_MULTI, 0, 2}, {K_DATA_TASK, 1, 0}}));
    v.push_back(S(1, {{K_CTL_MULTI, 0, 3}, {K_CTL_GATHER, 0, 0}}));
    return v;
}
static int do_exh(int part, int nparts) {
    std::vector<Case> cases;
    for (const Spec &s : exh_specs()) {
        std::vector<int> req = s.required(); int N = (int)req.size();
        for (int T = 2; T <= 3; T++) {
            // destination of each release: 0 = withheld, 1 = pre, 2.. = thread; orders: all permutations of the release list
            std::vector<int> perm(N); for (int i = 0; i < N; i++) perm[i] = i;
            do {
                // skip permutations that only reorder identical flow ids (gathers)
                bool canon = true; for (int i = 0; i + 1 < N; i++) if (req[perm[i]] == req[perm[i + 1]] && perm[i] > perm[i + 1]) canon = false;
                if (!canon) continue;
                if (T == 3) {                       // three threads: one release each (other deals are covered with T == 2)
                    if (N != 3) continue;
                    Case c; c.spec = s; c.prog.resize(3);
                    for (int i = 0; i < 3; i++) c.prog[i].push_back(req[perm[i]]);
                    cases.push_back(c);
                    continue;
                }
                int total = 1; for (int i = 0; i < N; i++) total *= (T + 2);
                for (int code = 0; code < total; code++) {
                    Case c; c.spec = s; c.prog.resize(T);
                    int x = code, nthreads_used = 0;
                    for (int i = 0; i < N; i++) { int d = x % (T + 2); x /= (T + 2); if (d == 1) c.pre.push_back(req[perm[i]]); else if (d >= 2) c.prog[d - 2].push_back(req[perm[i]]); }
                    for (auto &p : c.prog) nthreads_used += !p.empty();
                    if (nthreads_used < 2) continue;
                    cases.push_back(c);
                }
            } while (std::next_permutation(perm.begin(), perm.end()));
        }
    }
    bool truncated = false; uint64_t nfull = 0, npartial = 0;
    for (size_t i = 0; i < cases.size(); i++) {
        if ((int)(i % nparts) != part) continue;
        Case c = cases[i];
        hc::DfsStats st; RunInfo last;
        dsched::DfsChooser *cur = nullptr;
        auto with_sched = [&](const std::vector<uint8_t> &s) { Case f = c; f.sparse = -1; f.sched = s; return f.repr(); };
        g_current = [&]() { return with_sched(cur ? hc::dfs_prefix(*cur) : std::vector<uint8_t>()); };
        bool ok = hc::dfs_all(99, 2000000, [&](dsched::Chooser &d, bool *nt) {
            cur = (dsched::DfsChooser *)&d;
            RunInfo ri; std::string e = run_case(c, d, &ri); *nt = ri.nontrivial; last = ri; return e; }, with_sched, st);
        vf::R().evaluations += st.execs;
        if (!ok) { vf::dump(); return 1; }
        truncated = truncated || st.truncated || st.capped;
        vf::note_case(c.repr() + "#schedules " + std::to_string(st.execs) + "\n", st.any_nontrivial);
        vf::R().evaluations -= 1;
        vf::label("schedules_enumerated", st.execs);
        (last.full ? nfull : npartial)++;
    }
    vf::label("programs_all_inputs_released", nfull);
    vf::label("programs_some_input_withheld", npartial);
    vf::R().extra["exh_truncated"] = truncated ? "true" : "false";
    vf::dump();
    return 0;
}

// ---- free-running stress: rounds of B fresh instances; T real threads walk the instances in the same order and release their
// share of each one concurrently (spinning start barrier per round); oracle per instance: ready reported once iff nothing was
// withheld, and never before every release of the instance was invoked.
namespace st {
struct Inst { void *w = nullptr; int N = 0, issue = 0; Spec spec; std::vector<std::vector<int>> share; std::atomic<int> invoked{0}, ready{0}, early{0}; };
}
static int do_stress(int T, long rounds, unsigned seed) {
    const int B = 32;
    std::atomic<long> phase{0}; std::atomic<int> arrived{0};
    std::vector<st::Inst> inst(B);
    std::vector<std::thread> th;
    for (int t = 0; t < T; t++) th.emplace_back([&, t]() {
        for (long r = 0; r < rounds; r++) {
            arrived++; { long spins = 0; while (phase.load() < 2 * r + 1) if (++spins > 20000) std::this_thread::yield(); }
            for (int b = 0; b < B; b++) { st::Inst &in = inst[b];
                for (int f : in.share[t]) { in.invoked++; if (shim_c07_release(in.w, f)) { in.ready++; if (in.invoked.load() != in.N) in.early++; } } }
            arrived++; while (phase.load() < 2 * r + 2) std::this_thread::yield();
        }
    });
    uint64_t x = seed * 2654435761u + 12345; auto rnd = [&](int n) { x = x * 6364136223846793005ULL + 1442695040888963407ULL; return (int)((x >> 33) % (uint64_t)n); };
    std::string e; uint64_t releases = 0, withheld_inst = 0, inbit_inst = 0, ninst = 0;
    for (long r = 0; r < rounds && e.empty(); r++) {
        for (int b = 0; b < B; b++) {
            st::Inst &in = inst[b];
            Spec s; s.mode = rnd(2);
            int nf = 1 + rnd(s.mode == 0 ? 20 : 8);
            for (int i = 0; i < nf; i++) {
                int k = rnd(10), kind, shape = rnd(4), cnt = 0;
                if (k < 5) kind = K_DATA_TASK; else if (k < 6) kind = K_DATA_COLL; else if (k < 7) kind = K_CTL_TASK; else if (k < 8) kind = K_CTL_NONE;
                else if (k < 9) kind = s.mode ? K_CTL_GATHER : K_WRITE_ONLY; else kind = s.mode ? K_CTL_MULTI : K_DATA_TASK;
                if (kind == K_CTL_GATHER) cnt = rnd(12);
                if (kind == K_CTL_MULTI) cnt = 1 + rnd(3);
                if (kind == K_DATA_COLL) shape %= 3;
                if (kind == K_CTL_NONE || kind == K_CTL_GATHER) shape %= 2;
                s.kind.push_back(kind); s.shape.push_back(shape); s.count.push_back(cnt);
            }
            std::vector<int> req = s.required();
            if (req.empty()) { s.kind[0] = K_DATA_TASK; s.shape[0] = 0; s.count[0] = 0; req = s.required(); }
            for (int i = (int)req.size() - 1; i > 0; i--) std::swap(req[i], req[rnd(i + 1)]);
            int withhold = rnd(8) == 0 ? 1 + rnd((int)req.size()) : 0;
            in.spec = s; in.N = (int)req.size(); in.issue = in.N - withhold;
            in.share.assign(T, {});
            int off = rnd(T);
            for (int i = 0; i < in.issue; i++) in.share[(i + off) % T].push_back(req[i]);
            in.w = s.build();
            if (!in.w) { e = "internal: spec not buildable"; break; }
            in.invoked = 0; in.ready = 0; in.early = 0;
        }
        if (!e.empty()) break;
        while (arrived.load() < T) std::this_thread::yield();
        arrived = 0; phase = 2 * r + 1;
        while (arrived.load() < T) std::this_thread::yield();
        for (int b = 0; b < B; b++) {
            st::Inst &in = inst[b];
            int exp = in.issue == in.N ? 1 : 0;
            releases += in.issue; withheld_inst += !exp; inbit_inst += in.spec.has_in_bits(); ninst++;
            if ((in.ready.load() != exp || in.early.load()) && e.empty()) {
                Case c; c.spec = in.spec; c.prog = in.share;
                e = "round " + std::to_string(r) + ": " + std::to_string(in.issue) + " of " + std::to_string(in.N) + " releases issued by " + std::to_string(T) + " threads, task reported ready " + std::to_string(in.ready.load()) + " time(s), expected " + std::to_string(exp) +
                    (in.early.load() ? " (ready before every release was invoked)" : "") + "; instance:\n" + c.repr();
            }
            shim_c07_free(in.w); in.w = nullptr;
        }
        arrived = 0; phase = 2 * r + 2;
    }
    std::string repr = "C07-stress threads " + std::to_string(T) + " rounds " + std::to_string(rounds) + " seed " + std::to_string(seed) + "\n";
    if (!e.empty()) { vf::record_failure(repr, e); vf::dump(); fflush(nullptr); _exit(1); }
    for (auto &t : th) t.join();
    vf::note_case(repr, T >= 2);
    vf::label("stress_instances", ninst);
    vf::label("stress_releases", releases);
    vf::label("stress_instances_with_withheld_input", withheld_inst);
    vf::label("stress_instances_with_IN_bits", inbit_inst);
    vf::dump();
    return 0;
}

int main(int argc, char **argv) {
    std::string mode = argc > 1 ? argv[1] : "rc";
    dsched::on_fatal() = fatal_hook;
    if (mode == "replay") {
        std::string txt = vf::slurp(argv[2]);
        if (txt.rfind("C07-stress", 0) == 0) {
            int T; long it; unsigned sd; sscanf(txt.c_str(), "C07-stress threads %d rounds %ld seed %u", &T, &it, &sd);
            int r = 0; for (int k = 0; k < 3 && !r; k++) r = do_stress(T, it, sd);
            printf(r ? "REPLAY-FAIL stress\n" : "REPLAY-PASS\n"); return r;
        }
        return do_replay(argv[2]);
    }
    if (mode == "exh") return do_exh(atoi(argv[2]), atoi(argv[3]));
    if (mode == "stress") return do_stress(atoi(argv[2]), atol(argv[3]), (unsigned)atoi(argv[4]));
    bool ok = rc::check("dependency word: ready exactly once, by the last release", []() {
        Case c;
        c.spec.mode = *rc::gen::resize(100, rc::gen::inRange(0, 2));
        int T = *rc::gen::resize(100, rc::gen::element(1, 2, 2, 2, 3, 3, 3, 4, 4));
        c.sparse = *rc::gen::element(0, 0, 0, 128, 200);
        int nf = *rc::gen::resize(100, rc::gen::element(1, 2, 2, 3, 3, 4, 4, 5, 6));
        for (int i = 0; i < nf; i++) {
            int k = *rc::gen::resize(100, rc::gen::inRange(0, 12)), kind, cnt = 0;
            int shape = *rc::gen::resize(100, rc::gen::inRange(0, 4));
            if (k < 5) kind = K_DATA_TASK; else if (k < 6) kind = K_DATA_COLL; else if (k < 8) kind = K_CTL_TASK; else if (k < 9) kind = K_CTL_NONE;
            else if (k < 10) kind = K_WRITE_ONLY; else if (k < 11) kind = c.spec.mode ? K_CTL_GATHER : K_DATA_TASK; else kind = c.spec.mode ? K_CTL_MULTI : K_CTL_TASK;
            if (kind == K_CTL_GATHER) cnt = *rc::gen::resize(100, rc::gen::inRange(0, 5));
            if (kind == K_CTL_MULTI) cnt = *rc::gen::resize(100, rc::gen::inRange(1, 4));
            if (kind == K_DATA_COLL) shape %= 3;
            if (kind == K_CTL_NONE || kind == K_CTL_GATHER) shape %= 2;
            c.spec.kind.push_back(kind); c.spec.shape.push_back(shape); c.spec.count.push_back(cnt);
        }
        std::vector<int> req = c.spec.required();
        if (req.empty()) { c.spec.kind[0] = K_DATA_TASK; c.spec.shape[0] = 0; c.spec.count[0] = 0; req = c.spec.required(); }
        // order: sort by generated keys; destination: mostly threads, sometimes pre, sometimes withheld
        int N = (int)req.size();
        std::vector<int> keys = *rc::gen::container<std::vector<int>>((size_t)N, rc::gen::resize(100, rc::gen::inRange(0, 1000)));
        std::vector<int> idx(N); for (int i = 0; i < N; i++) idx[i] = i;
        std::stable_sort(idx.begin(), idx.end(), [&](int a, int b) { return keys[a] < keys[b]; });
        bool allow_withhold = *rc::gen::resize(100, rc::gen::inRange(0, 4)) == 0;
        c.prog.resize(T);
        for (int i : idx) {
            int d = *rc::gen::resize(100, rc::gen::inRange(0, 20));
            if (d == 0 && allow_withhold) continue;                 // withheld
            if (d == 1) c.pre.push_back(req[i]); else c.prog[d % T].push_back(req[i]);
        }
        int sl = *rc::gen::inRange(0, 60);
        c.sched = *rc::gen::container<std::vector<uint8_t>>((size_t)sl, rc::gen::resize(100, rc::gen::arbitrary<uint8_t>()));
        g_current = [&]() { return c.repr(); };
        hc::FairByteChooser ch(c.sched.data(), c.sched.size(), c.sparse);
        RunInfo ri; std::string e = run_case(c, ch, &ri);
        std::string r = c.repr();
        vf::note_case(r, ri.nontrivial);
        vf::label(c.spec.mode ? "mode_counter" : "mode_mask");
        vf::label(ri.full ? "all_inputs_released" : "some_input_withheld");
        vf::label(std::string("racing_threads_") + std::to_string(ri.racing_threads));
        vf::label(std::string("N_") + (ri.N >= 6 ? std::string("6plus") : std::to_string(ri.N)));
        if (ri.overlap) vf::label("overlapping_releases");
        if (c.spec.has_in_bits()) vf::label("has_IN_from_collection_or_empty_control");
        bool g = false; for (int k : c.spec.kind) g |= (k == K_CTL_GATHER || k == K_CTL_MULTI); if (g) vf::label("has_control_gather");
        if (!e.empty()) { vf::record_failure(r, e); RC_FAIL(e); }
    });
    vf::dump();
    return ok ? 0 : 1;
}
