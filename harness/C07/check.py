"""C07 -- dependency word: a task becomes ready exactly once, by its last release (dsched + exhaustive small space + stress)."""
import glob
import os
import subprocess

from vf import core

PROP = "C07"
RULE = ("case = (mask or counter tracking; 1..6 flows whose generated instance is data-from-task / data-from-collection / control "
        "with one, none, several or a gathered number of inputs / write-only, in several guard layouts; the required releases in a "
        "generated order dealt to `pre` (sequential), 1..4 threads, or withheld; schedule bytes); each release is one call of "
        "tc->update_deps on the shared word as parsec_release_local_OUT_dependencies issues it, one runnable thread at a time with "
        "switches before every atomic operation; oracle = exactly one call reports ready iff all N releases were issued, and it is "
        "the last call to commit; non-trivial = N >= 2, >= 2 threads release and two of their calls overlap in time; distinct = "
        "distinct (instance, deal, schedule) values")


def _build():
    return core.build_harness("C07/deps", ["harness/C07/deps.cc"], tree="san", rapidcheck=True,
                              plain_c_sources=["harness/C07/shim.c"])


def collect(res, wr):
    for f in wr.failures:
        res.violations.append(core.Violation(f["msg"], replay_text=f["replay_text"]))
    for c in wr.crashes:
        if c["rc"] == "timeout":
            res.inconclusive = "a %s worker did not finish within its time limit (not a verdict)" % c["tag"]
            continue
        res.violations.append(core.Violation("harness process died (rc=%s): %s" % (c["rc"], c["log_tail"][-1200:]),
                                             replay_text="# crash of %s\n%s" % (" ".join(c["cmd"]), c["log_tail"][-1500:])))


def run(tier, seed, res):
    b = _build()
    quick = tier == "quick"
    res.rule = RULE
    res.assumptions = ["mask mode: one release per flow that expects a task input, never twice the same flow (the function asserts it)",
                       "counter mode: never more releases than the goal of the instance",
                       "task class flags / dependencies_goal are computed as jdf2c.c computes them (static goal = number of input flows, per-instance goal when HAS_IN_IN_DEPENDENCIES or HAS_CTL_GATHER)",
                       "sequential consistency at atomic-operation granularity under dsched; real parallelism only in the stress part (x86)"]
    n = 16
    jobs = [dict(cmd=[b, "exh", str(i), str(n)], tag="exh") for i in range(n)]
    wr = core.run_workers(PROP, jobs)
    res.absorb(wr, "exhaustive")
    res.coverage["exhaustive"] = not (wr.failures or wr.crashes)
    res.coverage["exhaustive_subspace"] = ("15 instance specs with N <= 3 required releases (both modes, with/without IN bits, gathers), every order and every "
                                           "deal of the releases to {withheld, pre, thread 0, thread 1} where both threads release, plus one release on each of 3 threads when N == 3: all schedules")
    collect(res, wr)
    per = 1500 if quick else 60000
    jobs = [dict(cmd=[b, "rc"], env={"RC_PARAMS": "seed=%d max_success=%d max_size=100" % (seed * 131 + i, per)}, tag="rc") for i in range(n)]
    wr = core.run_workers(PROP, jobs)
    res.absorb(wr, "rc")
    collect(res, wr)
    rounds = 300 if quick else 15000   # per 2 threads; scaled down with the thread count (every round ends in a barrier)
    jobs = [dict(cmd=[b, "stress", str(t), str(max(25, rounds * 2 // t)), str(seed * 17 + t)], tag="stress", timeout=150 if quick else 1800) for t in (2, 4, 16)]
    wr = core.run_workers(PROP, jobs, max_parallel=1)
    res.absorb(wr, "stress")
    collect(res, wr)
    _regress(b, res)


def _replay_bin(b, path):
    env = dict(os.environ)
    env.update(core.SAN_RUN_ENV)
    p = subprocess.run([b, "replay", path], env=env, stdout=subprocess.PIPE, stderr=subprocess.STDOUT, text=True)
    return p.returncode == 0 and "REPLAY-PASS" in p.stdout, p.stdout[-2000:]


def _regress(b, res):
    """every saved case under corpus/<PROP>/regress must still hold"""
    n = 0
    for f in sorted(glob.glob(os.path.join(core.VERIF, "corpus", PROP, "regress", "*.txt"))):
        ok, msg = _replay_bin(b, f)
        n += 1
        if not ok:
            res.violations.append(core.Violation("saved case %s fails: %s" % (os.path.basename(f), msg[-600:]), replay_path=f))
    res.coverage["regress_cases_replayed"] = n


def replay(path):
    return _replay_bin(_build(), path)
