"""C42 -- profiling traces read back exactly as written (PROF_TRACE build): generated dictionaries / infos / multi-threaded event
streams written through the standalone profiling API by one process per rank, read back with tools/profiling/dbpreader.c."""
import os
import shutil
import subprocess

from vf import core

PROP = "C42"
RULE = ("case = (buffer pages 1/2/3/8, file resize 1/2/4, explicit dbp_dump or dump-in-fini, application id, 1..8 dictionary keys with "
        "names / attributes ending in a 6-character colour / convertor NULL, empty or up to 300 chars / info length 0..200, 0..4 global infos "
        "with values up to 9000 bytes, 1..3 ranks, per rank 1..8 concurrently writing pthreads with 0..4 stream infos and 0..3000 generated "
        "events (key, start/end, flags RESCHEDULED/COUNTER/TIME_AT_START, 64-bit event id, taskpool id or NULL id, info payload derived from the "
        "event words)). one writer process per rank (parsec_profiling_init .. dbp_start .. stream_init per thread .. start .. trace_flags .. "
        "[dbp_dump] .. fini), then one reader process (dbp_reader_open_files on all files). oracle = per file: rank, application id, dictionary "
        "(names, info lengths, convertors, colour attributes, in registration order), written global infos present with equal multiplicity, "
        "streams with events matched by name with equal stream infos, and per stream the exact sequence of (key, flags, event id, taskpool id, "
        "info length and bytes) with non-decreasing timestamps. non-trivial = some rank has >= 2 streams AND an event carries a non-empty info "
        "payload AND some stream spans >= 3 buffers; distinct = distinct case texts")


def _build():
    return core.build_harness("C42/trace", ["harness/C42/trace.cc"], tree="prof", rapidcheck=True,
                              plain_c_sources=[os.path.join(core.REPO, "tools/profiling/dbpreader.c")],
                              extra_cflags=["-I" + os.path.join(core.REPO, "tools/profiling")])


def run(tier, seed, res):
    b = _build()
    quick = tier == "quick"
    res.rule = RULE
    res.assumptions = ["key names unique and <= 63 chars, stream names unique and <= 127 chars, application id <= 127 chars (longer ones are truncated by design)",
                       "attributes are longer than 6 characters and end in the 6 colour characters the reader keeps",
                       "all ranks of one trace register the same set of keywords (name, info length, convertor: 'consistent between ranks', profiling.h) — ranks after the first in a generated order, which the reader's per-file dictionary translation exists for — and use the same buffer size",
                       "HAS_INFO is passed exactly when an info pointer is passed; stream infos stay far below one buffer (dump_thread cannot split them)",
                       "info payload bytes are a fixed function of the generated event words"]
    rd = os.path.join(core.run_dir(PROP), "traces")
    os.makedirs(rd, exist_ok=True)
    n = 16
    per = 30 if quick else 1500
    jobs = [dict(cmd=[b, "rc", rd], env={"RC_PARAMS": "seed=%d max_success=%d max_size=100" % (seed * 131 + i, per)}, tag="rc",
                 timeout=900 if quick else 14400) for i in range(n)]
    wr = core.run_workers(PROP, jobs, san=False)
    res.absorb(wr, "rc")
    for f in wr.failures:
        res.violations.append(core.Violation(f["msg"], replay_text=f["replay_text"]))
    for c in wr.crashes:
        if c["rc"] == "timeout":
            res.inconclusive = "a worker hit the wall-clock cap; not a verdict"
            continue
        res.violations.append(core.Violation("harness process died (rc=%s): %s" % (c["rc"], c["log_tail"][-1200:]),
                                             replay_text="# crash of %s\n%s" % (" ".join(c["cmd"]), c["log_tail"][-1500:])))
    shutil.rmtree(rd, ignore_errors=True)


def replay(path):
    b = _build()
    rd = os.path.join(core.run_dir(PROP), "replay")
    os.makedirs(rd, exist_ok=True)
    env = dict(os.environ)
    env.update(core.MPI_ENV)
    env.pop("VF_OUT", None)
    try:
        p = subprocess.run([b, "replay", path, rd], env=env, stdout=subprocess.PIPE, stderr=subprocess.STDOUT, text=True, errors="replace")
    finally:
        shutil.rmtree(rd, ignore_errors=True)
    msg = [l for l in p.stdout.splitlines() if l.startswith("REPLAY-")]
    return p.returncode == 0 and "REPLAY-PASS" in p.stdout, ("\n".join(msg) or p.stdout[-1500:])[:2000]
