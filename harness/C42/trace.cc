// C42 -- Profiling traces read back exactly as written (PARSEC_PROF_TRACE=ON build, standalone profiling API + dbpreader.c).
//
// case = (buffer pages, file resize factor, dictionary, global infos, per "process" (rank): streams with infos and a
// generated event list).  For every case the parent writes the case file, runs one *writer* child per rank (profiling has
// process-global state: one trace per process), then one *reader* child which opens all files with the real dbpreader.c and
// compares everything against the case.  The children are this same executable (modes write / read).
// modes: rc <dir> | write <casefile> <rank> | read <casefile> | replay <casefile> <dir>
#include <algorithm>
#include <cerrno>
#include <fcntl.h>
#include <map>
#include <pthread.h>
#include <sys/stat.h>
#include <sys/wait.h>
#include <unistd.h>
#include "vf.hpp"
#include <rapidcheck.h>

#include "parsec/profiling.h"
extern "C" {
#include "dbpreader.h"
}

// ------------------------------------------------------------------ the case value
struct Key { std::string name, attr, conv; bool conv_null = false; int infolen = 0; };
struct Ev { uint32_t w0, w1, w2; };
struct Stream { std::string name; std::vector<std::pair<std::string, std::string>> infos; std::vector<Ev> ev; };
struct Rank {
    std::vector<Stream> streams;
    std::vector<int> order;      // order[j] = index (in Case::keys) of the key this rank registers j-th; empty = 0,1,2,...
    int at(int j) const { return order.empty() ? j : order[j]; }
    int pos_of(int kidx) const { if (order.empty()) return kidx; for (size_t j = 0; j < order.size(); j++) if (order[j] == kidx) return (int)j; return -1; }
};
struct Case {
    int pages = 1, resize = 1, explicit_dump = 1;
    std::string hrid;
    std::vector<Key> keys;
    std::vector<std::pair<std::string, std::string>> ginfos;
    std::vector<Rank> ranks;
};

static std::string hexs(const std::string &s) { if (s.empty()) return "-"; static const char *d = "0123456789abcdef"; std::string o; for (unsigned char c : s) { o += d[c >> 4]; o += d[c & 15]; } return o; }
static std::string unhex(const std::string &h) { if (h == "-") return ""; std::string o; for (size_t i = 0; i + 1 < h.size(); i += 2) o += (char)strtol(h.substr(i, 2).c_str(), nullptr, 16); return o; }

static std::string repr(const Case &c)
{
    std::ostringstream o;
    o << "C42 pages " << c.pages << " resize " << c.resize << " dump " << c.explicit_dump << " hrid " << hexs(c.hrid) << "\n";
    for (auto &k : c.keys) o << "key " << hexs(k.name) << " " << hexs(k.attr) << " " << (k.conv_null ? "NULL" : hexs(k.conv)) << " " << k.infolen << "\n";
    for (auto &g : c.ginfos) o << "ginfo " << hexs(g.first) << " " << hexs(g.second) << "\n";
    for (auto &r : c.ranks) {
        o << "rank\n";
        if (!r.order.empty()) { o << "order"; for (int x : r.order) o << " " << x; o << "\n"; }
        for (auto &s : r.streams) {
            o << "stream " << hexs(s.name) << "\n";
            for (auto &i : s.infos) o << "sinfo " << hexs(i.first) << " " << hexs(i.second) << "\n";
            o << "events " << s.ev.size();
            for (auto &e : s.ev) o << " " << e.w0 << " " << e.w1 << " " << e.w2;
            o << "\n";
        }
    }
    return o.str();
}

static Case parse(const std::string &txt)
{
    Case c; std::istringstream in(txt); std::string line;
    while (std::getline(in, line)) {
        std::istringstream ls(line); std::string w; ls >> w;
        if (w == "C42") { std::string k, v; while (ls >> k >> v) { if (k == "pages") c.pages = atoi(v.c_str()); else if (k == "resize") c.resize = atoi(v.c_str()); else if (k == "dump") c.explicit_dump = atoi(v.c_str()); else if (k == "hrid") c.hrid = unhex(v); } }
        else if (w == "key") { Key k; std::string a, b, d; ls >> a >> b >> d >> k.infolen; k.name = unhex(a); k.attr = unhex(b); if (d == "NULL") k.conv_null = true; else k.conv = unhex(d); c.keys.push_back(k); }
        else if (w == "ginfo") { std::string a, b; ls >> a >> b; c.ginfos.push_back({unhex(a), unhex(b)}); }
        else if (w == "rank") c.ranks.emplace_back();
        else if (w == "order" && !c.ranks.empty()) { int x; while (ls >> x) c.ranks.back().order.push_back(x); }
        else if (w == "stream" && !c.ranks.empty()) { std::string a; ls >> a; Stream s; s.name = unhex(a); c.ranks.back().streams.push_back(s); }
        else if (w == "sinfo" && !c.ranks.empty() && !c.ranks.back().streams.empty()) { std::string a, b; ls >> a >> b; c.ranks.back().streams.back().infos.push_back({unhex(a), unhex(b)}); }
        else if (w == "events" && !c.ranks.empty() && !c.ranks.back().streams.empty()) { size_t n; ls >> n; auto &ev = c.ranks.back().streams.back().ev; for (size_t i = 0; i < n; i++) { Ev e; ls >> e.w0 >> e.w1 >> e.w2; ev.push_back(e); } }
    }
    return c;
}

// what one generated event means (shared by writer and reader)
struct Decoded { int kidx; bool is_end; uint16_t flags; bool with_info; uint64_t eid; uint32_t tpid; };
static Decoded decode(const Case &c, const Ev &e)
{
    Decoded d;
    d.kidx = (int)(e.w0 % c.keys.size());
    d.is_end = (e.w0 >> 8) & 1;
    unsigned r = (e.w0 >> 9) & 63;
    d.flags = 0;
    if ((r & 3) == 0) d.flags |= PARSEC_PROFILING_EVENT_RESCHEDULED;
    if (((r >> 2) & 3) == 0) d.flags |= PARSEC_PROFILING_EVENT_COUNTER;
    if (((r >> 4) & 3) == 0) d.flags |= PARSEC_PROFILING_EVENT_TIME_AT_START;
    d.with_info = c.keys[d.kidx].infolen > 0 ? ((e.w0 >> 15) & 3) != 0 : ((e.w0 >> 15) & 15) == 0;
    d.eid = ((e.w0 >> 19) & 1) ? (uint64_t)e.w1 * 0x9E3779B97F4A7C15ULL + e.w2 : e.w1 % 1000;
    d.tpid = ((e.w0 >> 20) & 3) == 0 ? PROFILE_OBJECT_ID_NULL : e.w2;
    return d;
}
static void info_bytes(const Ev &e, int len, unsigned char *out)
{
    uint64_t x = ((uint64_t)e.w1 << 32) ^ e.w2 ^ 0x5851F42D4C957F2DULL;
    for (int i = 0; i < len; i++) { x = x * 6364136223846793005ULL + 1442695040888963407ULL; out[i] = (unsigned char)(x >> 56); }
}

static std::string base_of(const std::string &casefile) { return casefile + ".trace"; }
static std::string file_of(const std::string &casefile, int rank) { return base_of(casefile) + "-" + std::to_string(rank) + ".prof"; }

// ------------------------------------------------------------------ writer (one process per rank)
struct WThread { const Case *c; const Stream *s; std::vector<std::pair<int, int>> *keys; pthread_t tid; int rc; };
static pthread_barrier_t g_bar;

static void *writer_thread(void *arg)
{
    WThread *w = (WThread *)arg;
    parsec_profiling_stream_t *prof = parsec_profiling_stream_init(4096, "%s", w->s->name.c_str());
    if (!prof) { w->rc = 11; pthread_barrier_wait(&g_bar); pthread_barrier_wait(&g_bar); return nullptr; }
    for (auto &i : w->s->infos) parsec_profiling_stream_add_information(prof, i.first.c_str(), i.second.c_str());
    pthread_barrier_wait(&g_bar);     // everybody initialised: main calls parsec_profiling_start
    pthread_barrier_wait(&g_bar);
    unsigned char buf[512];
    for (auto &e : w->s->ev) {
        Decoded d = decode(*w->c, e);
        int key = d.is_end ? (*w->keys)[d.kidx].second : (*w->keys)[d.kidx].first;
        const void *info = nullptr;
        if (d.with_info) { info_bytes(e, w->c->keys[d.kidx].infolen, buf); info = buf; }
        int rc = parsec_profiling_trace_flags(prof, key, d.eid, d.tpid, info, d.flags | (info ? PARSEC_PROFILING_EVENT_HAS_INFO : 0));
        if (rc != 0) { w->rc = 12; break; }
    }
    return nullptr;
}

static int do_write(const char *casefile, int rank)
{
    Case c = parse(vf::slurp(casefile));
    if (rank < 0 || rank >= (int)c.ranks.size() || c.keys.empty()) return 2;
    setenv("PARSEC_MCA_profile_buffer_pages", std::to_string(c.pages).c_str(), 1);
    setenv("PARSEC_MCA_profile_file_resize", std::to_string(c.resize).c_str(), 1);
    if (parsec_profiling_init(rank) != 0) { fprintf(stderr, "WRITE-ERR parsec_profiling_init failed\n"); return 3; }
    if (parsec_profiling_dbp_start(base_of(casefile).c_str(), c.hrid.c_str()) != 0) { fprintf(stderr, "WRITE-ERR dbp_start: %s\n", parsec_profiling_strerror()); return 3; }
    if (!c.ranks[rank].order.empty()) {           // a permutation of the key indices, or the case file is not ours
        std::vector<int> o = c.ranks[rank].order; std::sort(o.begin(), o.end());
        for (size_t j = 0; j < o.size(); j++) if (o[j] != (int)j) return 2;
        if (o.size() != c.keys.size()) return 2;
    }
    std::vector<std::pair<int, int>> keys(c.keys.size());
    for (size_t j = 0; j < c.keys.size(); j++) {
        const Key &k = c.keys[c.ranks[rank].at((int)j)];
        int ks = -1, ke = -1;
        if (parsec_profiling_add_dictionary_keyword(k.name.c_str(), k.attr.c_str(), (size_t)k.infolen, k.conv_null ? nullptr : k.conv.c_str(), &ks, &ke) != 0) { fprintf(stderr, "WRITE-ERR add_dictionary_keyword failed\n"); return 3; }
        keys[c.ranks[rank].at((int)j)] = {ks, ke};
    }
    for (auto &g : c.ginfos) parsec_profiling_add_information(g.first.c_str(), g.second.c_str());
    const Rank &r = c.ranks[rank];
    int T = (int)r.streams.size();
    pthread_barrier_init(&g_bar, nullptr, T + 1);
    std::vector<WThread> th(T);
    for (int t = 0; t < T; t++) { th[t] = WThread{&c, &r.streams[t], &keys, {}, 0}; pthread_create(&th[t].tid, nullptr, writer_thread, &th[t]); }
    pthread_barrier_wait(&g_bar);
    parsec_profiling_start();
    pthread_barrier_wait(&g_bar);
    int bad = 0;
    for (int t = 0; t < T; t++) { pthread_join(th[t].tid, nullptr); if (th[t].rc) bad = th[t].rc; }
    if (bad) { fprintf(stderr, "WRITE-ERR a stream could not be initialised or an event could not be traced (rc %d): %s\n", bad, parsec_profiling_strerror()); return 3; }
    if (c.explicit_dump && parsec_profiling_dbp_dump() != 0) { fprintf(stderr, "WRITE-ERR dbp_dump: %s\n", parsec_profiling_strerror()); return 3; }
    if (parsec_profiling_fini() != 0) { fprintf(stderr, "WRITE-ERR fini: %s\n", parsec_profiling_strerror()); return 3; }
    return 0;
}

// ------------------------------------------------------------------ reader
#define RFAIL(...) do { char _b[600]; snprintf(_b, sizeof _b, __VA_ARGS__); printf("READ-FAIL %s\n", _b); fflush(stdout); return 1; } while (0)

static int do_read(const char *casefile)
{
    Case c = parse(vf::slurp(casefile));
    int R = (int)c.ranks.size();
    std::vector<std::string> names; std::vector<char *> argvv;
    for (int r = 0; r < R; r++) names.push_back(file_of(casefile, r));
    for (auto &n : names) argvv.push_back((char *)n.c_str());
    dbp_multifile_reader_t *dbp = dbp_reader_open_files(R, argvv.data());
    if (!dbp) RFAIL("dbp_reader_open_files returned NULL");
    if (dbp_reader_nb_files(dbp) != R) RFAIL("%d files written, the reader sees %d", R, dbp_reader_nb_files(dbp));
    if (dbp_reader_last_error(dbp) != 0) RFAIL("reader reports error %d while opening the files", dbp_reader_last_error(dbp));
    std::vector<bool> seen_rank(R, false);
    long total_events = 0;
    for (int f = 0; f < R; f++) {
        dbp_file_t *file = dbp_reader_get_file(dbp, f);
        if (dbp_file_error(file) != 0) RFAIL("file %d: reader error %d", f, dbp_file_error(file));
        int rank = dbp_file_get_rank(file);
        if (rank < 0 || rank >= R || seen_rank[rank]) RFAIL("file %d: rank %d read back (ranks 0..%d were written once each)", f, rank, R - 1);
        seen_rank[rank] = true;
        std::string want_hr = c.hrid.substr(0, 127);
        if (want_hr != dbp_file_hr_id(file)) RFAIL("rank %d: application id '%s' read back as '%s'", rank, want_hr.c_str(), dbp_file_hr_id(file));
        // dictionary as this file sees it: entry 0 is the reserved "N/A", then the written keys in registration order
        int nd = dbp_file_nb_dictionary_entries(file);
        if (nd != (int)c.keys.size() + 1) RFAIL("rank %d: %zu dictionary keys written (+ the reserved one), %d read back", rank, c.keys.size(), nd);
        for (int k = 0; k < (int)c.keys.size(); k++) {
            dbp_dictionary_t *d = dbp_file_get_dictionary(file, k + 1);
            const Key &w = c.keys[c.ranks[rank].at(k)];
            if (w.name != dbp_dictionary_name(d)) RFAIL("rank %d key %d: name '%s' read back as '%s'", rank, k, w.name.c_str(), dbp_dictionary_name(d));
            if (w.infolen != dbp_dictionary_keylen(d)) RFAIL("rank %d key %d (%s): info length %d read back as %d", rank, k, w.name.c_str(), w.infolen, dbp_dictionary_keylen(d));
            std::string wc = w.conv_null ? "" : w.conv;
            if (wc != dbp_dictionary_convertor(d)) RFAIL("rank %d key %d (%s): convertor '%s' read back as '%s'", rank, k, w.name.c_str(), wc.c_str(), dbp_dictionary_convertor(d));
            std::string wa = w.attr.substr(0, 127); wa = wa.substr(wa.size() - 6);      // the reader keeps the 6 colour digits
            if (wa != dbp_dictionary_attributes(d)) RFAIL("rank %d key %d (%s): attributes '...%s' read back as '%s'", rank, k, w.name.c_str(), wa.c_str(), dbp_dictionary_attributes(d));
        }
        // global infos: every written pair must be there exactly as often as written (the library adds its own: hostname, cwd, HWLOC-XML)
        std::map<std::pair<std::string, std::string>, int> gi;
        for (int i = 0; i < dbp_file_nb_infos(file); i++) { dbp_info_t *inf = dbp_file_get_info(file, i); gi[{dbp_info_get_key(inf), dbp_info_get_value(inf)}]++; }
        std::map<std::pair<std::string, std::string>, int> gw;
        for (auto &g : c.ginfos) gw[g]++;
        for (auto &kv : gw) if (gi[kv.first] != kv.second) RFAIL("rank %d: global info '%s' (value of %zu bytes) written %d time(s), read back %d time(s)", rank, kv.first.first.c_str(), kv.first.second.size(), kv.second, gi[kv.first]);
        // streams: matched by name; a stream without events is not stored
        const Rank &wr = c.ranks[rank];
        int nth = dbp_file_nb_threads(file);
        std::map<std::string, int> by_name;
        for (int t = 0; t < nth; t++) { std::string n = dbp_thread_get_hr_id(dbp_file_get_thread(file, t)); if (by_name.count(n)) RFAIL("rank %d: stream '%s' appears twice", rank, n.c_str()); by_name[n] = t; }
        int expect_th = 0;
        for (auto &s : wr.streams) if (!s.ev.empty()) expect_th++;
        if (nth != expect_th) RFAIL("rank %d: %d streams with events written, %d streams read back", rank, expect_th, nth);
        for (auto &s : wr.streams) {
            if (s.ev.empty()) continue;
            auto it = by_name.find(s.name.substr(0, 127));
            if (it == by_name.end()) RFAIL("rank %d: stream '%s' (%zu events) is missing", rank, s.name.c_str(), s.ev.size());
            dbp_thread_t *th = dbp_file_get_thread(file, it->second);
            if (dbp_thread_nb_events(th) != (int)s.ev.size()) RFAIL("rank %d stream '%s': %zu events written, header says %d", rank, s.name.c_str(), s.ev.size(), dbp_thread_nb_events(th));
            std::map<std::pair<std::string, std::string>, int> si, sw;
            for (int i = 0; i < dbp_thread_nb_infos(th); i++) { dbp_info_t *inf = dbp_thread_get_info(th, i); si[{dbp_info_get_key(inf), dbp_info_get_value(inf)}]++; }
            for (auto &i : s.infos) sw[i]++;
            if (si != sw) RFAIL("rank %d stream '%s': stream infos differ (%zu written, %d read back)", rank, s.name.c_str(), s.infos.size(), dbp_thread_nb_infos(th));
            dbp_event_iterator_t *iter = dbp_iterator_new_from_thread(th);
            const dbp_event_t *e = dbp_iterator_current(iter);
            uint64_t last_ts = 0; size_t n = 0; unsigned char want[512];
            for (; e != nullptr; e = dbp_iterator_next(iter), n++) {
                if (n >= s.ev.size()) RFAIL("rank %d stream '%s': more than the %zu written events are read back", rank, s.name.c_str(), s.ev.size());
                Decoded d = decode(c, s.ev[n]);
                int wkey = 2 * (wr.pos_of(d.kidx) + 1) + (d.is_end ? 1 : 0);      // keys are local to the file: registration position
                int wflags = d.flags | (d.with_info ? PARSEC_PROFILING_EVENT_HAS_INFO : 0);
                if (dbp_event_get_key(e) != wkey) RFAIL("rank %d stream '%s' event %zu: key %d read back as %d", rank, s.name.c_str(), n, wkey, dbp_event_get_key(e));
                if (dbp_event_get_flags(e) != wflags) RFAIL("rank %d stream '%s' event %zu: flags %d read back as %d", rank, s.name.c_str(), n, wflags, dbp_event_get_flags(e));
                if (dbp_event_get_event_id(e) != d.eid) RFAIL("rank %d stream '%s' event %zu: event id %llu read back as %llu", rank, s.name.c_str(), n, (unsigned long long)d.eid, (unsigned long long)dbp_event_get_event_id(e));
                if (dbp_event_get_taskpool_id(e) != d.tpid) RFAIL("rank %d stream '%s' event %zu: taskpool id %u read back as %u", rank, s.name.c_str(), n, d.tpid, dbp_event_get_taskpool_id(e));
                uint64_t ts = dbp_event_get_timestamp(e);
                if (ts < last_ts) RFAIL("rank %d stream '%s' event %zu: timestamp goes backwards", rank, s.name.c_str(), n);
                last_ts = ts;
                int ilen = dbp_event_info_len(e, file);
                int wlen = d.with_info ? c.keys[d.kidx].infolen : 0;
                if (ilen != wlen) RFAIL("rank %d stream '%s' event %zu: info of %d bytes read back with %d bytes", rank, s.name.c_str(), n, wlen, ilen);
                if (d.with_info) {
                    const void *p = dbp_event_get_info(e);
                    if (!p) RFAIL("rank %d stream '%s' event %zu: info payload missing", rank, s.name.c_str(), n);
                    info_bytes(s.ev[n], wlen, want);
                    if (memcmp(p, want, wlen) != 0) RFAIL("rank %d stream '%s' event %zu: info payload (%d bytes) differs", rank, s.name.c_str(), n, wlen);
                } else if (dbp_event_get_info(e) != nullptr) RFAIL("rank %d stream '%s' event %zu: an info payload is read back but none was written", rank, s.name.c_str(), n);
            }
            if (n != s.ev.size()) RFAIL("rank %d stream '%s': %zu events written, only %zu read back by the iterator", rank, s.name.c_str(), s.ev.size(), n);
            total_events += (long)n;
            dbp_iterator_delete(iter);
        }
    }
    printf("READ-OK %ld events\n", total_events);
    return 0;
}

// ------------------------------------------------------------------ parent: run children
static std::string g_self;
static int run_child(const std::vector<std::string> &args, const std::string &logfile, int *sig)
{
    pid_t p = fork();
    if (p == 0) {
        int fd = open(logfile.c_str(), O_WRONLY | O_CREAT | O_TRUNC, 0600);
        if (fd >= 0) { dup2(fd, 1); dup2(fd, 2); close(fd); }
        std::vector<char *> av; for (auto &a : args) av.push_back((char *)a.c_str()); av.push_back(nullptr);
        execv(g_self.c_str(), av.data());
        _exit(127);
    }
    int st = 0; *sig = 0;
    while (waitpid(p, &st, 0) < 0 && errno == EINTR) {}
    if (WIFSIGNALED(st)) { *sig = WTERMSIG(st); return 128 + *sig; }
    return WEXITSTATUS(st);
}
static std::string tail(const std::string &path, size_t n = 500) { std::string s = vf::slurp(path.c_str()); return s.size() > n ? s.substr(s.size() - n) : s; }

struct RunInfo { bool nontrivial = false; long events = 0; int max_pages = 0, threads_max = 0; bool info_used = false; };

static size_t header_bytes() { return 25; }   // offsetof(parsec_profiling_buffer_t, buffer)
static void measure(const Case &c, RunInfo *ri)
{
    long avail = (long)c.pages * sysconf(_SC_PAGESIZE) - (long)header_bytes();
    bool multi = false;
    for (auto &r : c.ranks) {
        if ((int)r.streams.size() >= 2) multi = true;
        ri->threads_max = std::max(ri->threads_max, (int)r.streams.size());
        for (auto &s : r.streams) {
            long pos = 0; int pages = s.ev.empty() ? 0 : 1;
            for (auto &e : s.ev) { Decoded d = decode(c, e); long len = 24 + (d.with_info ? c.keys[d.kidx].infolen : 0); if (d.with_info && c.keys[d.kidx].infolen > 0) ri->info_used = true; if (pos + len > avail) { pages++; pos = 0; } pos += len; }
            ri->max_pages = std::max(ri->max_pages, pages); ri->events += (long)s.ev.size();
        }
    }
    ri->nontrivial = multi && ri->info_used && ri->max_pages >= 3;
}

// writes the trace(s) of the case and reads them back; "" when everything matched.  All files are removed afterwards.
static std::string run_case(const Case &c, const std::string &dir, const std::string &tag)
{
    std::string casefile = dir + "/case_" + tag + ".txt";
    { std::ofstream o(casefile, std::ios::trunc); o << repr(c); }
    std::string err, log = casefile + ".log";
    int sig = 0;
    for (int r = 0; r < (int)c.ranks.size() && err.empty(); r++) {
        int rc = run_child({g_self, "write", casefile, std::to_string(r)}, log, &sig);
        if (rc != 0) err = "the writer process of rank " + std::to_string(r) + (sig ? " was killed by signal " + std::to_string(sig) : " failed with status " + std::to_string(rc)) + ": " + tail(log);
    }
    if (err.empty()) {
        int rc = run_child({g_self, "read", casefile}, log, &sig);
        std::string out = tail(log, 700);
        if (rc != 0 || out.find("READ-OK") == std::string::npos) {
            size_t p = out.find("READ-FAIL");
            err = p != std::string::npos ? out.substr(p + 10) : ("the reader process " + (sig ? "was killed by signal " + std::to_string(sig) : "failed with status " + std::to_string(rc)) + ": " + out);
        }
    }
    for (int r = 0; r < (int)c.ranks.size(); r++) unlink(file_of(casefile, r).c_str());
    unlink(casefile.c_str()); unlink(log.c_str());
    while (!err.empty() && (err.back() == '\n' || err.back() == ' ')) err.pop_back();
    return err;
}

// ------------------------------------------------------------------ generators
static std::string gen_text(int lo, int hi)
{
    int n = *rc::gen::resize(100, rc::gen::inRange(lo, hi + 1));
    std::vector<int> v = *rc::gen::container<std::vector<int>>((size_t)n, rc::gen::resize(100, rc::gen::inRange(0x20, 0x7f)));
    return std::string(v.begin(), v.end());
}

static Case gen_case()
{
    Case c;
    c.pages = *rc::gen::element(1, 1, 1, 2, 3, 8);
    c.resize = *rc::gen::element(1, 1, 2, 4);
    c.explicit_dump = *rc::gen::resize(100, rc::gen::inRange(0, 4)) != 0;
    c.hrid = gen_text(1, *rc::gen::element(12, 40, 127));
    int nk = *rc::gen::resize(100, rc::gen::inRange(1, 9));
    for (int k = 0; k < nk; k++) {
        Key key;
        key.name = "k" + std::to_string(k) + gen_text(0, *rc::gen::element(6, 20, 60));        // unique, <= 63 characters
        key.attr = (*rc::gen::resize(100, rc::gen::inRange(0, 2)) ? "fill:#" : gen_text(1, 100) + "#") + gen_text(6, 6);   // ends in 6 colour characters
        int cw = *rc::gen::resize(100, rc::gen::inRange(0, 6));
        if (cw == 0) key.conv_null = true; else if (cw == 1) key.conv = ""; else key.conv = gen_text(1, cw == 5 ? 300 : 40);
        int lw = *rc::gen::resize(100, rc::gen::inRange(0, 5));
        key.infolen = lw < 2 ? 0 : lw == 2 ? *rc::gen::resize(100, rc::gen::inRange(1, 17)) : *rc::gen::resize(100, rc::gen::inRange(1, 201));
        c.keys.push_back(key);
    }
    int ng = *rc::gen::resize(100, rc::gen::inRange(0, 5));
    for (int i = 0; i < ng; i++) {
        int big = *rc::gen::resize(100, rc::gen::inRange(0, 6));
        c.ginfos.push_back({"g" + std::to_string(i) + gen_text(0, 30), gen_text(0, big == 0 ? 9000 : big == 1 ? 4200 : 60)});
    }
    int R = *rc::gen::element(1, 1, 1, 2, 3);
    for (int r = 0; r < R; r++) {
        Rank rk;
        // ranks after the first may register the (same) keywords in another order: the reader merges the dictionaries by
        // (name, info length, convertor) and keeps a per-file translation, so this is within "consistent between ranks"
        if (r > 0 && nk > 1 && *rc::gen::resize(100, rc::gen::inRange(0, 3)) != 0) {
            std::vector<int> pri = *rc::gen::container<std::vector<int>>((size_t)nk, rc::gen::resize(100, rc::gen::inRange(0, 1 << 20)));
            for (int j = 0; j < nk; j++) rk.order.push_back(j);
            std::stable_sort(rk.order.begin(), rk.order.end(), [&](int a, int b) { return pri[a] < pri[b]; });
        }
        int T = *rc::gen::resize(100, rc::gen::inRange(1, 9));
        for (int t = 0; t < T; t++) {
            Stream s;
            s.name = "r" + std::to_string(r) + "t" + std::to_string(t) + gen_text(0, *rc::gen::element(5, 30, 100));
            int ni = *rc::gen::resize(100, rc::gen::inRange(0, 5));
            for (int i = 0; i < ni; i++) s.infos.push_back({"i" + std::to_string(i) + gen_text(0, 20), gen_text(0, 80)});
            int cls = *rc::gen::resize(100, rc::gen::inRange(0, 12));
            int ne = cls == 0 ? 0 : cls < 6 ? *rc::gen::resize(100, rc::gen::inRange(1, 60)) : cls < 10 ? *rc::gen::resize(100, rc::gen::inRange(60, 700)) : *rc::gen::resize(100, rc::gen::inRange(700, 3001));
            std::vector<int> w = *rc::gen::container<std::vector<int>>((size_t)ne * 3, rc::gen::resize(100, rc::gen::inRange(0, 0x7fffffff)));
            for (int i = 0; i < ne; i++) s.ev.push_back(Ev{(uint32_t)w[3 * i], (uint32_t)w[3 * i + 1], (uint32_t)w[3 * i + 2]});
            rk.streams.push_back(s);
        }
        c.ranks.push_back(rk);
    }
    return c;
}

int main(int argc, char **argv)
{
    char self[4096]; ssize_t n = readlink("/proc/self/exe", self, sizeof self - 1); self[n > 0 ? n : 0] = 0; g_self = self;
    std::string mode = argc > 1 ? argv[1] : "";
    if (mode == "write" && argc >= 4) return do_write(argv[2], atoi(argv[3]));
    if (mode == "read" && argc >= 3) return do_read(argv[2]);
    if (mode == "replay" && argc >= 4) {
        Case c = parse(vf::slurp(argv[2]));
        if (c.keys.empty() || c.ranks.empty()) { printf("REPLAY-FAIL unparsable case\n"); return 2; }
        std::string e = run_case(c, argv[3], "replay" + std::to_string(getpid()));
        if (e.empty()) { printf("REPLAY-PASS\n"); return 0; }
        printf("REPLAY-FAIL %s\n", e.c_str()); return 1;
    }
    if (mode != "rc" || argc < 3) { fprintf(stderr, "usage: trace rc <dir> | write <case> <rank> | read <case> | replay <case> <dir>\n"); return 2; }
    std::string dir = argv[2], tag = std::to_string(getpid());
    bool ok = rc::check("a written trace reads back with the same dictionary, infos, streams and events", [&]() {
        Case c = gen_case();
        RunInfo ri; measure(c, &ri);
        std::string e = run_case(c, dir, tag);
        std::string rp = repr(c);
        vf::note_case(rp, ri.nontrivial);
        vf::label("ranks_" + std::to_string(c.ranks.size())); vf::label("buffer_pages_" + std::to_string(c.pages));
        if (ri.max_pages >= 3) vf::label("stream_spanning_3_or_more_buffers");
        if (ri.max_pages >= 10) vf::label("stream_spanning_10_or_more_buffers");
        if (ri.info_used) vf::label("events_with_info_payload");
        for (auto &rk : c.ranks) if (!rk.order.empty()) { vf::label("a_rank_registers_the_keys_in_another_order"); break; }
        if (ri.threads_max >= 2) vf::label("two_or_more_streams");
        if (ri.events == 0) vf::label("no_event_at_all");
        for (auto &g : c.ginfos) if (g.second.size() > 4000) { vf::label("global_info_value_longer_than_a_page"); break; }
        vf::label("events_written", (uint64_t)ri.events);
        if (!e.empty()) { vf::record_failure(rp, e); RC_FAIL(e); }
    });
    vf::dump();
    return ok ? 0 : 1;
}
