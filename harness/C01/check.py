"""C01 -- every PTG task instance runs exactly once (engine E5: generated PTG programs vs reference interpreter)."""
import os
import sys
sys.path.insert(0, os.path.join(os.path.dirname(os.path.abspath(__file__)), "..", "ptg"))
import engine  # noqa: E402

PROP = "C01"


def prebuild():
    engine.prebuild()


def run(tier, seed, res):
    engine.known_findings(PROP, res, ["C01"])
    engine.regressions(PROP, res, ["C01"])
    engine.run(PROP, "c01", tier, seed, res)


def replay(path):
    return engine.replay(path, ["C01"])
