// C39 -- Argument-vector utilities are consistent.
//
// One decoder from generated words to a case of one of three kinds, one oracle each:
//   kind S  split / join / count / len / copy / join_range round trips on a generated string and delimiter
//   kind V  a sequence of append / prepend / append_unique / insert / insert_element / delete on an argv,
//           compared after every call with a std::vector<std::string> model
//   kind C  a generated option table + a command line built from a model instance list (options in all their
//           forms with parameters, combined shorts, "--" tail, unknown token tail, malformed endings), parsed by
//           parsec_cmd_line_parse and queried with get_ninsts / is_taken / get_param / typed destinations / get_tail
// Drivers: rc (rapidcheck words), fuzz (libFuzzer bytes -> words, -DVF_FUZZ), replay ("W <words>").
//
// Environment: C39_INCLUDE_DELETE_OVERRUN=1 lets kind V generate parsec_argv_delete calls whose count runs past the
// end of the vector (or that start exactly at the end).  By default those are clamped (label delete_overrun_excluded):
// see corpus/C39/regress/delete_overrun_argc.txt.
#include <algorithm>
#include <climits>
#include <functional>
#include "vf.hpp"
#include "crashnote.hpp"
#ifndef VF_FUZZ
#include <rapidcheck.h>
#endif

extern "C" {
#include "parsec/parsec_config.h"
#include "parsec/utils/argv.h"
typedef struct { char short_name; const char *sd_name; const char *long_name; int num_params; int type; void *dest; } shim_opt_t;
int shim_type_null(void); int shim_type_string(void); int shim_type_int(void); int shim_type_size_t(void); int shim_type_bool(void);
int shim_success(void); int shim_err_bad_param(void);
void *shim_cl_create(const shim_opt_t *o, int n, int how, int *rc_out);
void shim_cl_free(void *cl);
int shim_cl_parse(void *cl, int ignore_unknown, int argc, char **argv);
int shim_cl_ninsts(void *cl, const char *opt);
int shim_cl_is_taken(void *cl, const char *opt);
char *shim_cl_param(void *cl, const char *opt, int inst, int idx);
int shim_cl_tail(void *cl, int *tailc, char ***tailv);
int shim_cl_argc(void *cl);
char *shim_cl_argv(void *cl, int i);
char *shim_cl_usage(void *cl);
}

typedef std::vector<long> Words;
typedef std::vector<std::string> SV;

static bool g_include_overrun = false;

struct Out {
    std::string err; bool nontrivial = false; std::map<std::string, int> lab;
    bool fail(const std::string &m) { if (err.empty()) err = m; return false; }
};

struct Cur {            // word cursor: reads 0 past the end (so every word vector is a valid case)
    const Words &w; size_t i = 0;
    explicit Cur(const Words &ww) : w(ww) {}
    long next() { return i < w.size() ? w[i++] : 0; }
    bool more() const { return i < w.size(); }
};

static unsigned long mixl(unsigned long a, unsigned long b) { unsigned long h = a * 0x9e3779b97f4a7c15UL + b; h ^= h >> 31; h *= 0xbf58476d1ce4e5b9UL; h ^= h >> 29; return h; }

static std::string show(const std::string &s) {
    std::string o = "\"";
    for (unsigned char c : s) { if (c >= 32 && c < 127 && c != '"') o += (char)c; else { char b[8]; snprintf(b, sizeof b, "\\x%02x", c); o += b; } }
    if (o.size() > 60) o = o.substr(0, 40) + "...(" + std::to_string(s.size()) + " bytes)";
    return o + "\"";
}
static std::string show(const SV &v) { std::string o = "["; for (size_t i = 0; i < v.size(); i++) o += (i ? "," : "") + show(v[i]); return o + "]"; }

// a field: length class and content derived from two words; `avoid` = a byte that must not occur (the delimiter), 0 = none
static std::string mkfield(long wa, long wb, int avoid, bool allow_empty) {
    static const char alpha[] = "abcx-_. 1,:";
    size_t len;
    switch (wa % 8) {
    case 0: case 1: case 2: len = 1 + (size_t)(wb % 5); break;
    case 3: len = allow_empty ? 0 : 1; break;
    case 4: len = 120 + (size_t)(wb % 16); break;          // around the 128-byte internal buffer: 126,127,128,129 ...
    case 5: len = 126 + (size_t)(wb % 4); break;
    case 6: len = 200 + (size_t)(wb % 200); break;
    default: len = 1 + (size_t)(wb % 12); break;
    }
    std::string s;
    for (size_t i = 0; i < len; i++) {
        char c = alpha[mixl((unsigned long)wb + 77, i + (unsigned long)wa * 131) % (sizeof(alpha) - 1)];
        if (c == (char)avoid) c = 'q';
        s += c;
    }
    return s;
}

static SV to_sv(char **argv) { SV v; if (argv) for (char **p = argv; *p; ++p) v.push_back(*p); return v; }

// --------------------------------------------------------------------------------------------- kind S
static void run_split(Cur &c, Out &out) {
    static const int delims[] = {',', ' ', ':', 'a', '\t', '\n', (int)(char)0xE9, 1, 127, '-'};
    int d = delims[c.next() % 10];
    std::string s; SV fields_all; std::string curf; bool longf = false, emptyf = false;
    int npieces = (int)(c.next() % 12);
    for (int i = 0; i < npieces; i++) {
        long wa = c.next(), wb = c.next();
        if (wa % 3 == 0) { size_t run = 1 + (size_t)(wb % 3); for (size_t k = 0; k < run; k++) { s += (char)d; fields_all.push_back(curf); curf.clear(); } }
        else { std::string f = mkfield(wa / 3, wb, d, false); s += f; curf += f; }
    }
    fields_all.push_back(curf);       // strict reading: n delimiters -> n+1 fields
    SV nonempty; for (auto &f : fields_all) { if (!f.empty()) nonempty.push_back(f); else emptyf = true; if (f.size() > 127) longf = true; }
    out.nontrivial = longf || emptyf;
    if (longf) out.lab["split_field_over_127"]++;
    if (emptyf) out.lab["split_empty_field"]++;

    char **a = parsec_argv_split(s.c_str(), d);
    SV got = to_sv(a);
    if (got != nonempty) { out.fail("parsec_argv_split(" + show(s) + ", " + std::to_string(d) + ") = " + show(got) + ", expected " + show(nonempty)); parsec_argv_free(a); return; }
    if (parsec_argv_count(a) != (int)nonempty.size()) { out.fail("parsec_argv_count disagrees with the number of fields"); parsec_argv_free(a); return; }
    size_t len = a ? sizeof(char *) : 0; for (auto &f : nonempty) len += f.size() + 1 + sizeof(char *);
    if (a && parsec_argv_len(a) != len) { out.fail("parsec_argv_len = " + std::to_string(parsec_argv_len(a)) + ", expected " + std::to_string(len)); parsec_argv_free(a); return; }
    // join(split) == s with runs collapsed and leading/trailing delimiters removed
    std::string collapsed; for (size_t i = 0; i < nonempty.size(); i++) { if (i) collapsed += (char)d; collapsed += nonempty[i]; }
    char *j = parsec_argv_join(a, d);
    if (!j || collapsed != j) { out.fail("join(split(s)) = " + show(j ? j : "(null)") + ", expected " + show(collapsed)); free(j); parsec_argv_free(a); return; }
    free(j);
    // copy
    char **cp = parsec_argv_copy(a);
    if (a) {
        if (!cp) { out.fail("parsec_argv_copy returned NULL for a non-NULL argv"); parsec_argv_free(a); return; }
        if (to_sv(cp) != nonempty) { out.fail("parsec_argv_copy differs from its input"); parsec_argv_free(cp); parsec_argv_free(a); return; }
        for (size_t i = 0; i < nonempty.size(); i++) if (cp[i] == a[i]) { out.fail("parsec_argv_copy shares a string with its input"); }
    } else if (cp) { out.fail("parsec_argv_copy(NULL) is not NULL"); }
    parsec_argv_free(cp);
    // join_range [start, end)
    {
        size_t st = (size_t)(c.next() % 8), en = (size_t)(c.next() % 10);
        char *jr = parsec_argv_join_range(a, st, en, d);
        std::string want;
        if (a && st <= nonempty.size()) for (size_t i = st; i < en && i < nonempty.size(); i++) { if (i > st) want += (char)d; want += nonempty[i]; }
        if (!jr || want != jr) out.fail("parsec_argv_join_range(" + show(nonempty) + ", " + std::to_string(st) + ", " + std::to_string(en) + ") = " + show(jr ? jr : "(null)") + ", expected " + show(want));
        free(jr);
        out.lab["join_range"]++;
    }
    parsec_argv_free(a);
    if (!out.err.empty()) return;

    // split_with_empty: strict fields, or strict fields without a final empty one (documentation is silent; both accepted)
    char **e = parsec_argv_split_with_empty(s.c_str(), d);
    SV gote = to_sv(e);
    SV alt = fields_all; if (!alt.empty() && alt.back().empty()) alt.pop_back();
    bool strict = gote == fields_all, dropped = gote == alt;
    if (!strict && !dropped) { out.fail("parsec_argv_split_with_empty(" + show(s) + ", " + std::to_string(d) + ") = " + show(gote) + ", expected " + show(fields_all) + " (or without the final empty field)"); parsec_argv_free(e); return; }
    if (fields_all.back().empty()) out.lab[strict ? "with_empty_keeps_trailing_empty" : "with_empty_drops_trailing_empty"]++;
    else out.lab["with_empty_no_trailing_delimiter"]++;
    char *je = parsec_argv_join(e, d);
    std::string s2 = s; if (!strict && !s2.empty()) s2.pop_back();          // dropped reading loses exactly one trailing delimiter
    if (!je || s2 != je) out.fail("join(split_with_empty(s)) = " + show(je ? je : "(null)") + ", expected " + show(s2));
    free(je);
    parsec_argv_free(e);
}

// --------------------------------------------------------------------------------------------- kind V
static bool same(char **argv, const SV &m, Out &out, const char *after) {
    SV got = to_sv(argv);
    if (got != m) return out.fail(std::string("after ") + after + ": argv = " + show(got) + ", model = " + show(m));
    if (parsec_argv_count(argv) != (int)m.size()) return out.fail(std::string("after ") + after + ": parsec_argv_count wrong");
    return true;
}

static void run_vector(Cur &c, Out &out) {
    char **argv = NULL; int argc = 0; SV m;
    int SUCCESS = shim_success(), BADP = shim_err_bad_param();
    // start: NULL or a few appended strings
    int n0 = (int)(c.next() % 6);
    for (int i = 0; i < n0; i++) { std::string s = mkfield(c.next(), c.next(), 0, true); parsec_argv_append(&argc, &argv, s.c_str()); m.push_back(s); }
    if (!same(argv, m, out, "initial appends")) { parsec_argv_free(argv); return; }
    int nops = 0;
    while (c.more() && nops < 60 && out.err.empty()) {
        long sel = c.next() % 12, a = c.next(), b = c.next(); nops++;
        int cnt = (int)m.size();
        // positions: inside, at the end, beyond the end
        auto position = [&](long x) -> int { switch (x % 5) { case 0: return 0; case 1: return cnt; case 2: return cnt + 1 + (int)((x / 5) % 3); case 3: return cnt ? (int)((x / 5) % cnt) : 0; default: return cnt ? cnt - 1 : 0; } };
        switch (sel) {
        case 0: case 1: {
            std::string s = mkfield(a, b, 0, true);
            int rc = parsec_argv_append(&argc, &argv, s.c_str()); m.push_back(s);
            if (rc != SUCCESS) out.fail("append failed"); else if (argc != (int)m.size()) out.fail("append: *argc = " + std::to_string(argc) + ", count = " + std::to_string(m.size()));
            same(argv, m, out, "append"); break;
        }
        case 2: {
            std::string s = mkfield(a, b, 0, true);
            if (parsec_argv_prepend_nosize(&argv, s.c_str()) != SUCCESS) out.fail("prepend failed");
            m.insert(m.begin(), s); argc = (int)m.size(); same(argv, m, out, "prepend_nosize"); out.lab["prepend"]++; break;
        }
        case 3: {
            // a string already present (when possible) or a new one
            std::string s = (cnt && (a % 2)) ? m[(size_t)(b % cnt)] : mkfield(a, b, 0, true);
            bool present = std::find(m.begin(), m.end(), s) != m.end();
            if (parsec_argv_append_unique_nosize(&argv, s.c_str(), (b / 7) % 2) != SUCCESS) out.fail("append_unique failed");
            if (!present) m.push_back(s);
            argc = (int)m.size(); same(argv, m, out, "append_unique_nosize"); out.lab[present ? "append_unique_present" : "append_unique_new"]++; break;
        }
        case 4: case 5: {
            int pos = position(a); int ns = (int)(b % 4); SV src;
            for (int i = 0; i < ns; i++) src.push_back(mkfield(a + i, b + 3 * i, 0, true));
            char **sv = NULL; for (auto &s : src) parsec_argv_append_nosize(&sv, s.c_str());
            bool neg = (a % 17) == 0; if (neg) pos = -1 - (int)(b % 3);
            int rc = parsec_argv_insert(&argv, pos, sv);
            if (argv == NULL || neg) { if (rc != BADP) out.fail("insert into " + std::string(neg ? "a negative position" : "a NULL target") + " did not return BAD_PARAM"); }
            else {
                if (rc != SUCCESS) out.fail("insert failed");
                size_t at = std::min((size_t)pos, m.size());
                m.insert(m.begin() + (long)at, src.begin(), src.end());
                out.lab[pos > cnt ? "insert_beyond_end" : (pos == cnt ? "insert_at_end" : "insert_inside")]++;
                if (pos >= cnt || pos == 0) out.nontrivial = true;
            }
            if (to_sv(sv) != src) out.fail("insert modified its source");
            parsec_argv_free(sv);
            argc = (int)m.size(); same(argv, m, out, "insert"); break;
        }
        case 6: case 7: {
            int pos = position(a); std::string s = mkfield(a, b, 0, true);
            int rc = parsec_argv_insert_element(&argv, pos, (char *)s.c_str());
            if (argv == NULL) { if (rc != BADP) out.fail("insert_element into a NULL target did not return BAD_PARAM"); }
            else {
                if (rc != SUCCESS) out.fail("insert_element failed");
                size_t at = std::min((size_t)pos, m.size());
                m.insert(m.begin() + (long)at, s);
                out.lab[pos > cnt ? "insert_element_beyond_end" : (pos == cnt ? "insert_element_at_end" : "insert_element_inside")]++;
                if (pos >= cnt || pos == 0) out.nontrivial = true;
            }
            argc = (int)m.size(); same(argv, m, out, "insert_element"); break;
        }
        default: {      // delete
            int pos = position(a); int n = (int)(b % 6);
            if ((b / 6) % 11 == 0) n = cnt + 1 + (int)(b % 3);           // counts overrunning the end
            bool neg = (a % 19) == 0; if (neg) { if (b % 2) pos = -1; else n = -1; }
            bool overrun = !neg && argv && n > 0 && pos <= cnt && pos + n > cnt;
            if (overrun && !g_include_overrun) {
                out.lab["delete_overrun_excluded"]++;
                n = cnt - pos;                                            // clamp: delete exactly up to the end
                overrun = false;
            }
            int argc_in = cnt; argc = argc_in;
            int rc = parsec_argv_delete(&argc, &argv, pos, n);
            if (argv == NULL || n == 0) { if (rc != SUCCESS) out.fail("delete no-op did not return SUCCESS"); out.lab["delete_noop"]++; }
            else if (pos > cnt) { if (rc != SUCCESS) out.fail("delete beyond the end did not return SUCCESS"); out.lab["delete_beyond_end"]++; }
            else if (neg) { if (rc != BADP) out.fail("delete with a negative argument did not return BAD_PARAM"); out.lab["delete_negative"]++; }
            else {
                if (rc != SUCCESS) out.fail("delete failed");
                size_t e = std::min((size_t)(pos + n), m.size());
                m.erase(m.begin() + pos, m.begin() + (long)e);
                out.lab[overrun ? "delete_overrun" : (pos + n == cnt ? "delete_to_end" : "delete_inside")]++;
                if (pos + n >= cnt || pos == 0) out.nontrivial = true;
            }
            if (same(argv, m, out, "delete") && out.err.empty() && argc != (int)m.size())
                out.fail("parsec_argv_delete(start=" + std::to_string(pos) + ", num_to_delete=" + std::to_string(n) + ") on " + std::to_string(argc_in) +
                         " tokens left " + std::to_string(m.size()) + " tokens but set *argc = " + std::to_string(argc));
            argc = (int)m.size();
            break;
        }
        }
    }
    parsec_argv_free(argv);
}

// --------------------------------------------------------------------------------------------- kind C
struct Opt {
    char sh = 0; std::string sd, lg; int np = 0; int type = 0;      // type: 0 none 1 string 2 int 3 size_t 4 bool
    // destinations (stable addresses: Opts live in a vector that is not resized after creation)
    char *d_str; int d_int; size_t d_sz; bool d_bool;
    // model of the destination
    bool m_set = false; std::string m_str; int m_int = 0; size_t m_sz = 0;
    std::vector<std::string> names() const { std::vector<std::string> n; if (sh) n.push_back(std::string(1, sh)); if (!sd.empty()) n.push_back(sd); if (!lg.empty()) n.push_back(lg); return n; }
};
struct Inst { int opt; SV params; };

static std::string int_like(long w) {
    switch (w % 6) {
    case 0: return std::to_string(w % 1000);
    case 1: return "-" + std::to_string(w % 977);
    case 2: return "0";
    case 3: return std::to_string(2147483647L - (w % 3));
    case 4: return "00" + std::to_string(w % 90);
    default: return std::to_string((w * 7919) % 100000);
    }
}
static std::string param_token(long wa, long wb) {
    switch (wa % 9) {
    case 0: return "--";
    case 1: return "-a";
    case 2: return "";
    case 3: return "--rlong0";
    case 4: return "-";
    case 5: return std::to_string(wb % 100);
    default: return mkfield(wa / 9, wb, 0, true);
    }
}

static void run_cmdline(Cur &c, Out &out) {
    static const char *sdpool[] = {"np", "xy", "pz1", "wdir", "q-r", "tt"};
    static const char *lgpool[] = {"rlong0", "verbose", "out-file", "zeta", "help", "w2", "parsec-x", "yy"};
    int nopt = 1 + (int)(c.next() % 6);
    std::vector<Opt> opts((size_t)nopt);
    for (int i = 0; i < nopt; i++) {
        long w = c.next(), t = c.next();
        Opt &o = opts[(size_t)i];
        int forms = 1 + (int)(w % 7);                                  // bit0 short, bit1 single dash, bit2 long; never 0
        if (forms & 1) o.sh = (char)('a' + i);
        if (forms & 2) o.sd = sdpool[i];
        if (forms & 4) o.lg = lgpool[(size_t)(i + (((w / 7) % 2) ? 2 : 0)) % 8];
        o.np = (int)((w / 16) % 4);
        o.type = (int)(t % 7); if (o.type > 4) o.type = 0;
        o.d_str = (char *)"untouched"; o.d_int = -12345; o.d_sz = 98765; o.d_bool = false;
    }
    // long names must be unique: fix collisions produced by the +2 shift
    for (int i = 0; i < nopt; i++) for (int j = 0; j < i; j++) if (!opts[(size_t)i].lg.empty() && opts[(size_t)i].lg == opts[(size_t)j].lg) opts[(size_t)i].lg = std::string("u") + std::to_string(i) + "long";
    std::vector<shim_opt_t> so((size_t)nopt);
    int T[5] = {shim_type_null(), shim_type_string(), shim_type_int(), shim_type_size_t(), shim_type_bool()};
    for (int i = 0; i < nopt; i++) {
        Opt &o = opts[(size_t)i];
        so[(size_t)i].short_name = o.sh; so[(size_t)i].sd_name = o.sd.empty() ? NULL : o.sd.c_str(); so[(size_t)i].long_name = o.lg.empty() ? NULL : o.lg.c_str();
        so[(size_t)i].num_params = o.np; so[(size_t)i].type = T[o.type];
        so[(size_t)i].dest = o.type == 1 ? (void *)&o.d_str : o.type == 2 ? (void *)&o.d_int : o.type == 3 ? (void *)&o.d_sz : o.type == 4 ? (void *)&o.d_bool : NULL;
    }
    int how = (int)(c.next() % 2), crc = 0;
    void *cl = shim_cl_create(so.data(), nopt, how, &crc);
    if (crc != shim_success()) { out.fail("creating the command line handle from a valid table failed (rc=" + std::to_string(crc) + ")"); shim_cl_free(cl); return; }
    out.lab[how ? "table_make_opt" : "table_create"]++;
    { char *u = shim_cl_usage(cl); if (!u) out.fail("get_usage_msg returned NULL"); free(u); }

    int nlines = 1 + (int)(c.next() % 2);
    for (int line = 0; line < nlines && out.err.empty(); line++) {
        SV argv{"prog"}; std::vector<Inst> insts; SV tail; bool has_combined = false, has_tail = false;
        Inst partial{-1, {}};     // class 2: the instance that ran out of parameters (its first parameter, when present, still reaches the destination)
        int malformed = 0;       // 0 valid; 1 unknown option token; 2 missing parameters; 3 unknown plain token without ignore_unknown; 4 non-integer for a typed int; 5 unknown letter in a combined token
        bool ignore_unknown = c.next() % 2;
        int nitems = (int)(c.next() % 7);
        auto make_params = [&](const Opt &o, SV &ps, bool bad_int) {
            for (int k = 0; k < o.np; k++) {
                long wa = c.next(), wb = c.next();
                if (k == 0 && o.type == 2) ps.push_back(bad_int ? "12x" : int_like(wa));
                else if (k == 0 && o.type == 3) ps.push_back(std::to_string(wa % 100000));
                else ps.push_back(param_token(wa, wb));
            }
        };
        for (int it = 0; it < nitems && !malformed; it++) {
            long sel = c.next(), w = c.next();
            if (sel % 5 == 4) {                   // combined shorts
                std::vector<int> sh; for (int i = 0; i < nopt; i++) if (opts[(size_t)i].sh) sh.push_back(i);
                if (sh.size() >= 1) {
                    int k = 2 + (int)(w % 2); std::string tok = "-"; std::vector<Inst> grp;
                    bool inject = (w / 2) % 13 == 0;
                    for (int j = 0; j < k; j++) { int oi = sh[(size_t)((w / (3 + j)) % (long)sh.size())]; tok += opts[(size_t)oi].sh; grp.push_back({oi, {}}); }
                    if (inject) { tok.insert(tok.begin() + 1 + (long)((w / 5) % (long)k), 'Z'); malformed = 5; }
                    argv.push_back(tok);
                    for (auto &g : grp) { make_params(opts[(size_t)g.opt], g.params, false); for (auto &p : g.params) argv.push_back(p); }
                    if (!malformed) { for (auto &g : grp) insts.push_back(g); has_combined = true; }
                    else { // instances before the unknown letter are still parsed when the unknown letter is not first ... only the return code is checked
                    }
                    continue;
                }
            }
            int oi = (int)(w % nopt); const Opt &o = opts[(size_t)oi];
            std::vector<std::string> forms; if (o.sh) forms.push_back(std::string("-") + o.sh); if (!o.sd.empty()) forms.push_back("-" + o.sd); if (!o.lg.empty()) forms.push_back("--" + o.lg);
            argv.push_back(forms[(size_t)((w / 11) % (long)forms.size())]);
            Inst in{oi, {}};
            bool bad_int = o.type == 2 && o.np > 0 && (sel / 5) % 17 == 0;
            make_params(o, in.params, bad_int);
            for (auto &p : in.params) argv.push_back(p);
            if (bad_int) { malformed = 4; break; }
            insts.push_back(in);
        }
        if (!malformed) {
            long e = c.next() % 8, w = c.next();
            if (e == 0) {                                        // "--" and a tail
                argv.push_back("--"); has_tail = true;
                int n = (int)(w % 4); for (int i = 0; i < n; i++) { std::string t = param_token(c.next(), c.next()); argv.push_back(t); tail.push_back(t); }
            } else if (e == 1) {                                 // an unknown plain token starts the tail
                std::string t = (w % 3 == 0) ? "" : ((w % 3 == 1) ? "file.txt" : "x-y"); has_tail = true;
                argv.push_back(t); tail.push_back(t);
                int n = (int)((w / 3) % 3); for (int i = 0; i < n; i++) { std::string u = param_token(c.next(), c.next()); argv.push_back(u); tail.push_back(u); }
                if (!ignore_unknown) malformed = 3;
            } else if (e == 2) {                                 // unknown option token
                static const char *unk[] = {"--nosuch", "-Z", "-", "--rlong0x", "-nosuch"};
                std::string t = unk[w % 5]; argv.push_back(t); tail.push_back(t); malformed = 1;
                int n = (int)((w / 5) % 3); for (int i = 0; i < n; i++) { std::string u = param_token(c.next(), c.next()); argv.push_back(u); tail.push_back(u); }
            } else if (e == 3 && !insts.empty() && opts[(size_t)insts.back().opt].np > 0 && !has_combined) {
                // drop the last parameter(s) of the last instance: not enough parameters
                int drop = 1 + (int)(w % opts[(size_t)insts.back().opt].np);
                for (int i = 0; i < drop; i++) argv.pop_back();
                partial = insts.back(); partial.params.resize(partial.params.size() - (size_t)drop);
                insts.pop_back(); malformed = 2;
            }
        }
        // ---- parse
        std::vector<char *> av; for (auto &s : argv) av.push_back((char *)s.c_str()); av.push_back(NULL);
        SV before = argv;
        int rc = shim_cl_parse(cl, ignore_unknown, (int)argv.size(), av.data());
        if (argv != before) { out.fail("parse modified the caller's argv"); break; }
        std::string where = "line " + show(argv) + (ignore_unknown ? " (ignore_unknown)" : "") + ": ";
        if (!malformed && rc != shim_success()) { out.fail(where + "parse of a well-formed line returned " + std::to_string(rc)); break; }
        if (malformed && rc == shim_success()) { out.fail(where + "parse returned SUCCESS for a malformed line (class " + std::to_string(malformed) + ")"); break; }
        out.lab["line_class_" + std::to_string(malformed)]++;
        if (has_combined) out.lab["line_with_combined_shorts"]++;
        if (has_tail) out.lab["line_with_tail"]++;
        if (!malformed && (has_combined || has_tail)) out.nontrivial = true;
        // ---- model: destinations
        if (malformed != 5) for (auto &in : insts) {
            Opt &o = opts[(size_t)in.opt];
            std::string first = o.np ? in.params[0] : "1";
            if (o.type) { o.m_set = true; o.m_str = first; o.m_int = (int)atol(first.c_str()); o.m_sz = (size_t)strtoul(first.c_str(), NULL, 10); }
        }
        if (partial.opt >= 0 && !partial.params.empty()) {
            Opt &o = opts[(size_t)partial.opt]; const std::string &first = partial.params[0];
            if (o.type) { o.m_set = true; o.m_str = first; o.m_int = (int)atol(first.c_str()); o.m_sz = (size_t)strtoul(first.c_str(), NULL, 10); }
        }
        if (malformed == 5) {      // what a broken combined token leaves behind is not modelled: adopt the actual destinations
            for (auto &o : opts) {
                if (o.type == 1) { o.m_set = strcmp(o.d_str, "untouched") != 0; o.m_str = o.d_str; }
                if (o.type == 2) { o.m_set = o.d_int != -12345; o.m_int = o.d_int; }
                if (o.type == 3) { o.m_set = o.d_sz != 98765; o.m_sz = o.d_sz; }
                if (o.type == 4) o.m_set = o.d_bool;
            }
        }
        // ---- queries
        if (malformed != 5) for (int i = 0; i < nopt && out.err.empty(); i++) {
            const Opt &o = opts[(size_t)i];
            std::vector<const Inst *> mine; for (auto &in : insts) if (in.opt == i) mine.push_back(&in);
            for (auto &name : o.names()) {
                int n = shim_cl_ninsts(cl, name.c_str());
                if (n != (int)mine.size()) { out.fail(where + "get_ninsts(" + show(name) + ") = " + std::to_string(n) + ", model " + std::to_string(mine.size())); break; }
                if ((shim_cl_is_taken(cl, name.c_str()) != 0) != !mine.empty()) { out.fail(where + "is_taken(" + show(name) + ") wrong"); break; }
                for (size_t k = 0; k < mine.size() && out.err.empty(); k++) for (int p = 0; p < o.np; p++) {
                    char *g = shim_cl_param(cl, name.c_str(), (int)k, p);
                    if (!g || mine[k]->params[(size_t)p] != g) { out.fail(where + "get_param(" + show(name) + ", " + std::to_string(k) + ", " + std::to_string(p) + ") = " + (g ? show(g) : "NULL") + ", model " + show(mine[k]->params[(size_t)p])); break; }
                }
                if (!out.err.empty()) break;
                if (shim_cl_param(cl, name.c_str(), (int)mine.size(), 0) != NULL) { out.fail(where + "get_param for an instance beyond the last is not NULL"); break; }
                if (!mine.empty() && shim_cl_param(cl, name.c_str(), 0, o.np) != NULL) { out.fail(where + "get_param for a parameter index beyond the last is not NULL"); break; }
            }
            if (!out.err.empty()) break;
            // typed destination
            if (o.type == 1) { std::string want = o.m_set ? o.m_str : "untouched"; if (want != o.d_str) out.fail(where + "string destination = " + show(o.d_str) + ", model " + show(want)); }
            if (o.type == 2) { int want = o.m_set ? o.m_int : -12345; if (want != o.d_int) out.fail(where + "int destination = " + std::to_string(o.d_int) + ", model " + std::to_string(want)); }
            if (o.type == 3) { size_t want = o.m_set ? o.m_sz : 98765; if (want != o.d_sz) out.fail(where + "size_t destination = " + std::to_string(o.d_sz) + ", model " + std::to_string(want)); }
            if (o.type == 4) { if (o.m_set != o.d_bool) out.fail(where + "bool destination wrong"); }
            if (o.type && !mine.empty()) out.lab["typed_destination_set"]++;
        }
        if (!out.err.empty()) break;
        { int n = shim_cl_ninsts(cl, "no-such-option-anywhere"); out.lab[n == 0 ? "ninsts_unknown_option_is_0" : "ninsts_unknown_option_is_error"]++; if (n > 0) { out.fail("get_ninsts of an undeclared option is positive"); break; } }
        // ---- tail
        if (malformed == 0 || malformed == 1 || malformed == 3 || malformed == 2) {
            int tc = -7; char **tv = NULL;
            if (shim_cl_tail(cl, &tc, &tv) != shim_success()) { out.fail(where + "get_tail failed"); break; }
            SV gt = to_sv(tv); parsec_argv_free(tv);
            if (gt != tail) { out.fail(where + "tail = " + show(gt) + ", model " + show(tail)); break; }
            if (tc == (int)tail.size()) out.lab["tailc_is_count"]++; else if (tc == (int)tail.size() + 1) out.lab["tailc_is_count_plus_null"]++;
            else { out.fail(where + "tailc = " + std::to_string(tc) + " for a tail of " + std::to_string(tail.size()) + " tokens"); break; }
        } else if (malformed == 4) {
            int tc = -7; char **tv = NULL; shim_cl_tail(cl, &tc, &tv); out.lab[tv ? "int_mismatch_tail_filled" : "int_mismatch_tail_empty"]++; parsec_argv_free(tv);
        }
        // ---- argc / argv as kept by the handle (original, or with combined shorts expanded: both accepted)
        if (!malformed) {
            SV kept; int kc = shim_cl_argc(cl); for (int i = 0; i < kc && i < 4096; i++) { char *s = shim_cl_argv(cl, i); if (!s) { out.fail(where + "get_argv(" + std::to_string(i) + ") is NULL below get_argc"); break; } kept.push_back(s); }
            if (!out.err.empty()) break;
            if (shim_cl_argv(cl, kc) != NULL || shim_cl_argv(cl, -1) != NULL) { out.fail(where + "get_argv outside [0, argc) is not NULL"); break; }
            if (kept == argv) out.lab["kept_argv_original"]++;
            else if (has_combined) out.lab["kept_argv_expanded"]++;
            else { out.fail(where + "get_argc/get_argv = " + show(kept) + " differ from the parsed argv"); break; }
        }
    }
    for (auto &o : opts) if (o.type == 1 && o.d_str && strcmp(o.d_str, "untouched") != 0) free(o.d_str);
    shim_cl_free(cl);
}

// --------------------------------------------------------------------------------------------- dispatch
static std::string words_text(const Words &w);
static Out run_words(const Words &w) {
    crashnote::set(words_text(w) + (g_include_overrun ? "ENV C39_INCLUDE_DELETE_OVERRUN=1\n" : ""));
    Out out; Cur c(w);
    long kind = c.next() % 4;
    if (kind == 0) { out.lab["kind_split"]++; run_split(c, out); }
    else if (kind == 1) { out.lab["kind_vector"]++; run_vector(c, out); }
    else { out.lab["kind_cmdline"]++; run_cmdline(c, out); }
    return out;
}
static std::string words_text(const Words &w) { std::ostringstream o; o << "W"; for (long x : w) o << " " << x; o << "\n"; return o.str(); }
static void note(const Words &w, const Out &o) {
    vf::note_case(words_text(w), o.nontrivial);
    for (auto &kv : o.lab) if (kv.second) vf::label(kv.first, (uint64_t)kv.second);
}
static void setup() {
    const char *e = getenv("C39_INCLUDE_DELETE_OVERRUN"); g_include_overrun = !(e && *e == '0');   // repaired in /repo (4c1c2af): overrunning deletes are generated by default
    stderr = fopen("/dev/null", "w");           // the parser prints its diagnostics with fprintf(stderr, ...); sanitizers write to fd 2 directly
}
static Words bytes_to_words(const uint8_t *d, size_t n) { Words w; for (size_t i = 0; i + 1 < n; i += 2) w.push_back((long)d[i] | ((long)d[i + 1] << 8)); return w; }

#ifdef VF_FUZZ
static uint64_t g_execs = 0;
extern "C" int LLVMFuzzerTestOneInput(const uint8_t *data, size_t size) {
    Words w = bytes_to_words(data, size);
    Out o = run_words(w);
    note(w, o);
    if (++g_execs % 20000 == 0) vf::dump();
    if (!o.err.empty()) {
        vf::record_failure(words_text(w), o.err); vf::dump();
        dprintf(2, "PROPERTY FAILURE: %s\n", o.err.c_str());
        __builtin_trap();
    }
    return 0;
}
extern "C" int LLVMFuzzerInitialize(int *, char ***) { setup(); atexit(vf::dump); return 0; }
#else
int main(int argc, char **argv) {
    std::string mode = argc > 1 ? argv[1] : "rc";
    setup();
    if (mode == "replay" || mode == "replay-bytes") {
        std::string txt = vf::slurp(argv[2]); Words w;
        if (mode == "replay-bytes") w = bytes_to_words((const uint8_t *)txt.data(), txt.size());
        else {
            std::istringstream in(txt); std::string line;
            while (std::getline(in, line)) {
                if (line.empty() || line[0] == '#') continue;
                if (line.compare(0, 4, "ENV ") == 0) { if (line.find("C39_INCLUDE_DELETE_OVERRUN=1") != std::string::npos) g_include_overrun = true; continue; }
                std::istringstream ls(line); std::string tok; while (ls >> tok) { if (tok == "W") continue; w.push_back(atol(tok.c_str())); }
            }
        }
        Out o = run_words(w);
        if (o.err.empty()) { printf("REPLAY-PASS\n"); return 0; }
        printf("REPLAY-FAIL %s\n", o.err.c_str()); return 1;
    }
    crashnote::install();
    bool ok = rc::check("argv utilities and cmd_line == model", []() {
        const auto len = *rc::gen::inRange<int>(1, 160);
        Words w = *rc::gen::container<Words>((size_t)len, rc::gen::resize(100, rc::gen::inRange<long>(0, 65536)));
        Out o = run_words(w);
        note(w, o);
        if (!o.err.empty()) { vf::record_failure(words_text(w) + (g_include_overrun ? "ENV C39_INCLUDE_DELETE_OVERRUN=1\n" : ""), o.err); RC_FAIL(o.err); }
    });
    vf::dump();
    return ok ? 0 : 1;
}
#endif
