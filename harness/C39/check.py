"""C39 -- argv utilities and the command-line parser: vector / option-table models; rapidcheck + libFuzzer."""
import glob
import os
import shutil
import subprocess

from vf import core

PROP = "C39"
SRC = ["harness/C39/argvcmd.cc"]
CSRC = ["harness/C39/shim.c"]
ASAN = {"ASAN_OPTIONS": core.SAN_RUN_ENV["ASAN_OPTIONS"] + ":quarantine_size_mb=8"}
RULE = ("case = word vector decoded into one of: (S) string of fields and delimiter runs (fields around the 128-byte buffer, "
        "empty fields, 10 delimiters incl. a letter and a negative char) -> split / split_with_empty / join / join_range / "
        "count / len / copy; (V) up to 60 append / prepend / append_unique / insert / insert_element / delete calls with "
        "positions inside, at and beyond the end, compared with a std::vector model after every call incl. *argc; (C) option "
        "table (1..6 options, short / single-dash / long names, 0..3 parameters, typed destinations) and 1..2 command lines "
        "built from a model instance list (all name forms, combined shorts, '--' tail, unknown-token tail, five malformed "
        "classes) -> get_ninsts / is_taken / get_param / destinations / get_tail / get_argv equal the model, malformed "
        "lines return an error; non-trivial = a field > 127 bytes or an empty field (S), an insert/delete at a boundary (V), a "
        "well-formed line with combined shorts or a tail (C); distinct = distinct word vectors")


def _build():
    rcbin = core.build_harness("C39/argvcmd_rc", SRC, tree="san", rapidcheck=True, plain_c_sources=CSRC)
    fzbin = core.build_harness("C39/argvcmd_fuzz", SRC, tree="san", fuzzer=True, extra_cflags=["-DVF_FUZZ"], plain_c_sources=CSRC)
    return rcbin, fzbin


def _collect(res, wr, fuzz=False):
    for f in wr.failures:
        res.violations.append(core.Violation(f["msg"], replay_text=f["replay_text"]))
    for c in wr.crashes:
        if fuzz and ("slow-unit" in c["log_tail"] or "timeout" in c["log_tail"] or "out-of-memory" in c["log_tail"]) \
                and "ERROR: AddressSanitizer" not in c["log_tail"] and "runtime error" not in c["log_tail"]:
            res.coverage.setdefault("load_noise", 0)
            res.coverage["load_noise"] += 1
            continue
        res.violations.append(core.Violation("harness process died (rc=%s) without a recorded case: %s" % (c["rc"], c["log_tail"][-1500:]),
                                             replay_text="# crash of %s\n%s" % (" ".join(c["cmd"]), c["log_tail"][-1500:])))


def _known(res, rcbin):
    """Known findings of this property (known_findings.json, maintained by the framework owner): their replay must
    still fail (then one KNOWN-FINDING line), and their input class stays excluded from generation."""
    excluded = False
    for f in core.known_for(PROP):
        rp = f.get("replay")
        if rp:
            ok, _ = replay(os.path.join(core.VERIF, rp))
            if not ok:
                res.known.append(f.get("what", f.get("id", "?")))
        if f.get("match", {}).get("class") == "delete_overrun":
            excluded = True
    return excluded


def run(tier, seed, res):
    rcbin, fzbin = _build()
    quick = tier == "quick"
    res.rule = RULE
    res.assumptions = ["delimiters are passed as a char converted to int (sign-extended), never 0",
                       "parsec_argv_delete calls whose count runs past the end (or start == count) are excluded by construction "
                       "(label delete_overrun_excluded) unless C39_INCLUDE_DELETE_OVERRUN=1: *argc is then wrong, see "
                       "corpus/C39/regress/delete_overrun_argc.txt",
                       "split_with_empty: a string ending in the delimiter may or may not yield a final empty field (both accepted, labelled)",
                       "get_tail's tailc may be the count or the count + 1 (header text is ambiguous; labelled)",
                       "get_ninsts of an undeclared option may be 0 or negative; get_argv may show combined shorts expanded",
                       "option names of one table are distinct; short names are letters not used by single-dash / long names",
                       "get_param is queried with 0 <= instance <= ninsts and 0 <= index <= num_params only"]
    _known(res, rcbin)
    env_extra = {}
    if os.environ.get("C39_INCLUDE_DELETE_OVERRUN") == "1":
        env_extra["C39_INCLUDE_DELETE_OVERRUN"] = "1"
    # the open observation is replayed on every run and reported in the evidence (not a verdict)
    reg = os.path.join(core.VERIF, "corpus", PROP, "regress", "delete_overrun_argc.txt")
    if os.path.exists(reg):
        ok, msg = replay(reg)
        res.coverage["regress_delete_overrun_argc"] = "no longer fails" if ok else "still reproduces: " + msg.strip()[-300:]
    n = 12
    per = 5000 if quick else 400000
    jobs = [dict(cmd=[rcbin, "rc"], env=dict(ASAN, RC_PARAMS="seed=%d max_success=%d max_size=200" % (seed * 131 + i, per), **env_extra), tag="rc")
            for i in range(n)]
    wr = core.run_workers(PROP, jobs)
    res.absorb(wr, "rc")
    _collect(res, wr)
    runs = 35000 if quick else 6000000
    nf = 8 if quick else 16
    jobs = []
    rd = core.run_dir(PROP)
    for i in range(nf):
        cdir = os.path.join(rd, "corpus%d" % i)
        adir = os.path.join(rd, "art%d" % i)
        os.makedirs(cdir, exist_ok=True)
        os.makedirs(adir, exist_ok=True)
        for f in glob.glob(os.path.join(core.VERIF, "corpus", PROP, "seed", "*")):
            shutil.copy(f, cdir)
        jobs.append(dict(cmd=[fzbin, "-seed=%d" % (seed * 131 + i), "-runs=%d" % runs, "-max_len=400", "-len_control=20",
                              "-artifact_prefix=" + adir + "/", "-print_final_stats=0", "-verbosity=0", cdir],
                         env=dict(ASAN, **env_extra), tag="fuzz%d" % i))
    wr = core.run_workers(PROP, jobs)
    res.absorb(wr, "fuzz")
    _collect(res, wr, fuzz=True)


def replay(path):
    rcbin, _ = _build()
    env = dict(os.environ)
    env.update(core.SAN_RUN_ENV)
    p = subprocess.run([rcbin, "replay", path], env=env, stdout=subprocess.PIPE, stderr=subprocess.STDOUT, text=True)
    return p.returncode == 0 and "REPLAY-PASS" in p.stdout, p.stdout[-2000:]
