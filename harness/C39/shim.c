/* C shim for C39: parsec_cmd_line_t embeds parsec_list_t / parsec_object_t, whose headers carry inline atomics;
 * the C++ harness talks to the command-line parser through these plain functions. */
#include "parsec/parsec_config.h"
#include "parsec/class/parsec_object.h"
#include "parsec/utils/cmd_line.h"
#include "parsec/utils/argv.h"
#include "parsec/constants.h"
#include <stdlib.h>
#include <string.h>
#include <stdio.h>

typedef struct {
    char short_name;            /* 0 = none */
    const char *sd_name;        /* NULL = none */
    const char *long_name;      /* NULL = none */
    int num_params;
    int type;                   /* parsec_cmd_line_type_t */
    void *dest;                 /* NULL = none */
} shim_opt_t;

int shim_type_null(void) { return PARSEC_CMD_LINE_TYPE_NULL; }
int shim_type_string(void) { return PARSEC_CMD_LINE_TYPE_STRING; }
int shim_type_int(void) { return PARSEC_CMD_LINE_TYPE_INT; }
int shim_type_size_t(void) { return PARSEC_CMD_LINE_TYPE_SIZE_T; }
int shim_type_bool(void) { return PARSEC_CMD_LINE_TYPE_BOOL; }
int shim_success(void) { return PARSEC_SUCCESS; }
int shim_err_bad_param(void) { return PARSEC_ERR_BAD_PARAM; }

/* how: 0 = parsec_cmd_line_create(table); 1 = OBJ_NEW + make_opt3 for options without destination, make_opt_mca otherwise */
void *shim_cl_create(const shim_opt_t *o, int n, int how, int *rc_out) {
    parsec_cmd_line_t *cl;
    int rc = PARSEC_SUCCESS;
    if (0 == how) {
        parsec_cmd_line_init_t *t = (parsec_cmd_line_init_t *)calloc((size_t)n + 1, sizeof(*t));
        for (int i = 0; i < n; i++) {
            t[i].ocl_mca_param_name = NULL;
            t[i].ocl_cmd_short_name = o[i].short_name;
            t[i].ocl_cmd_single_dash_name = o[i].sd_name;
            t[i].ocl_cmd_long_name = o[i].long_name;
            t[i].ocl_num_params = o[i].num_params;
            t[i].ocl_variable_dest = o[i].dest;
            t[i].ocl_variable_type = (parsec_cmd_line_type_t)o[i].type;
            t[i].ocl_description = (i % 2) ? "an option of the generated table with a description long enough to be wrapped over several lines of the usage message" : NULL;
        }
        cl = (parsec_cmd_line_t *)malloc(sizeof(parsec_cmd_line_t));
        rc = parsec_cmd_line_create(cl, t);          /* constructs cl */
        free(t);
        *rc_out = rc;
        return cl;
    }
    cl = (parsec_cmd_line_t *)malloc(sizeof(parsec_cmd_line_t));
    PARSEC_OBJ_CONSTRUCT(cl, parsec_cmd_line_t);
    for (int i = 0; i < n && PARSEC_SUCCESS == rc; i++) {
        if (NULL == o[i].dest) {
            rc = parsec_cmd_line_make_opt3(cl, o[i].short_name, o[i].sd_name, o[i].long_name, o[i].num_params, (i % 2) ? "described" : NULL);
        } else {
            parsec_cmd_line_init_t e;
            memset(&e, 0, sizeof(e));
            e.ocl_cmd_short_name = o[i].short_name;
            e.ocl_cmd_single_dash_name = o[i].sd_name;
            e.ocl_cmd_long_name = o[i].long_name;
            e.ocl_num_params = o[i].num_params;
            e.ocl_variable_dest = o[i].dest;
            e.ocl_variable_type = (parsec_cmd_line_type_t)o[i].type;
            e.ocl_description = "typed";
            rc = parsec_cmd_line_make_opt_mca(cl, e);
        }
    }
    *rc_out = rc;
    return cl;
}
void shim_cl_free(void *cl) { PARSEC_OBJ_DESTRUCT((parsec_cmd_line_t *)cl); free(cl); }
int shim_cl_parse(void *cl, int ignore_unknown, int argc, char **argv) { return parsec_cmd_line_parse((parsec_cmd_line_t *)cl, ignore_unknown ? true : false, argc, argv); }
int shim_cl_ninsts(void *cl, const char *opt) { return parsec_cmd_line_get_ninsts((parsec_cmd_line_t *)cl, opt); }
int shim_cl_is_taken(void *cl, const char *opt) { return parsec_cmd_line_is_taken((parsec_cmd_line_t *)cl, opt) ? 1 : 0; }
char *shim_cl_param(void *cl, const char *opt, int inst, int idx) { return parsec_cmd_line_get_param((parsec_cmd_line_t *)cl, opt, inst, idx); }
int shim_cl_tail(void *cl, int *tailc, char ***tailv) { return parsec_cmd_line_get_tail((parsec_cmd_line_t *)cl, tailc, tailv); }
int shim_cl_argc(void *cl) { return parsec_cmd_line_get_argc((parsec_cmd_line_t *)cl); }
char *shim_cl_argv(void *cl, int i) { return parsec_cmd_line_get_argv((parsec_cmd_line_t *)cl, i); }
char *shim_cl_usage(void *cl) { return parsec_cmd_line_get_usage_msg((parsec_cmd_line_t *)cl); }
