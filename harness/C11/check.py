"""C11 -- four-counter termination detection.

(1) simulation of P ranks around the real fourcounter module (engine E8): generated histories of ready / work / application
    message / wave message events, safety oracle inside every termination callback, liveness oracle at the fixpoint;
(2) conformance of the simulator's call grammar: hook H5 logs every module call of REAL dynamic-termdet runs
    (tests/apps/pingpong/rtt.jdf compiled with `parsec-ptgpp -D`, 2 and 3 MPI ranks, eager and rendezvous message sizes);
    each per-rank trace must be a word of the grammar that the simulated callers produce (same checker run on simulator traces).
"""
import os
import subprocess
import time

from vf import core

PROP = "C11"
RULE = ("case = (P ranks, initial tasks / startup actions / ready delay per rank, word stream); the words choose, step by step, one "
        "enabled event (ready, action done, task completion with sends and discovered tasks, start / finish of an application "
        "message reception with the bracket order of remote_dep_release_incoming, delivery of the head of a wave channel) and its "
        "parameters; after the words are used up the harness finishes all work round-robin without creating new work; oracle = "
        "at every termination callback all ranks are idle and no application message is queued or half received (harness "
        "bookkeeping), at the fixpoint every rank had exactly one callback, no module assertion fails; non-trivial = P >= 3 AND an "
        "application message was in flight when a wave message was sent AND a rank that had contributed to a wave became busy "
        "again before the wave's answer; distinct = distinct case values (hash)")

CALLS_ANYTIME = {"taskpool_addto_nb_tasks", "taskpool_addto_runtime_actions", "taskpool_set_nb_tasks", "taskpool_set_runtime_actions"}


def check_trace(events):
    """events: [(name, nb_tasks, nb_pending_actions)] of one rank.  Returns '' or the reason the trace is outside the grammar."""
    mon = ready = done = False
    os_ = op = is_ = ie = 0
    for i, (name, nt, npa) in enumerate(events):
        where = " (event %d: %s %d %d)" % (i, name, nt, npa)
        if name in ("SEND_UP", "SEND_DOWN", "END"):
            continue
        if name == "CALLBACK":
            done = True
            continue
        if done:
            return "module call after the termination callback" + where
        if name == "monitor_taskpool":
            if mon:
                return "monitored twice" + where
            mon = True
            continue
        if not mon:
            return "call before monitor_taskpool" + where
        if name == "taskpool_ready":
            if ready:
                return "ready twice" + where
            if nt <= 0 and npa <= 0:
                return "taskpool_ready with neither tasks nor pending actions" + where
            ready = True
        elif name in ("msg_up", "msg_down"):
            if not ready:
                return "wave message handled before taskpool_ready" + where
        elif name == "incoming_message_start":
            if not ready:
                return "application message before taskpool_ready" + where
            is_ += 1
        elif name == "incoming_message_end":
            if ie >= is_:
                return "incoming_message_end without start" + where
            if npa < 1:
                return "incoming_message_end outside the +1/-1 pending-action bracket" + where
            ie += 1
        elif name == "outgoing_message_start":
            if not ready:
                return "send before taskpool_ready" + where
            if nt <= 0 and npa <= 0:
                return "outgoing_message_start while idle" + where
            os_ += 1
        elif name == "outgoing_message_pack":
            if op >= os_:
                return "outgoing_message_pack without start" + where
            op += 1
        elif name in CALLS_ANYTIME:
            pass
        else:
            return "unknown call" + where
    if is_ != ie:
        return "a reception was started but never finished"
    if os_ != op:
        return "a message was started but never packed"
    if not (mon and ready):
        return "trace without monitor/ready"
    return ""


def split_traces(text):
    """-> list of {rank: [(name, nt, npa)]} (one dict per '# case' block)."""
    blocks, cur = [], {}
    for line in text.splitlines():
        if line.startswith("#"):
            if cur:
                blocks.append(cur)
            cur = {}
            continue
        f = line.split()
        if len(f) != 4:
            continue
        cur.setdefault(int(f[0]), []).append((f[1], int(f[2]), int(f[3])))
    if cur:
        blocks.append(cur)
    return blocks


def _build():
    return core.build_harness("C11/fourcounter", ["harness/C11/fourcounter.cc", "harness/C11/trap.cc"], tree="san", rapidcheck=True)


def _build_conf():
    """The real program for the conformance step (hooks tree, gcc).  Returns the executable or raises BuildError."""
    d = core.ensure_tree("hooks")
    pp = os.path.join(core.REPO, "tests", "apps", "pingpong")
    out_dir = os.path.join(core.WORK, "harness", "hooks", "C11conf")
    os.makedirs(out_dir, exist_ok=True)
    exe = os.path.join(out_dir, "conf")
    ptgpp = os.path.join(d, "parsec", "interfaces", "ptg", "ptg-compiler", "parsec-ptgpp")
    deps = [os.path.join(pp, f) for f in ("rtt.jdf", "rtt_data.c", "rtt_wrapper.c", "rtt_data.h", "rtt_wrapper.h")] + \
           [os.path.join(core.VERIF, "harness", PROP, "conf", "conf_main.c"), ptgpp, os.path.join(d, "parsec", "libparsec.so")]
    if os.path.exists(exe) and all(os.path.getmtime(x) <= os.path.getmtime(exe) for x in deps):
        return exe
    p = subprocess.run([ptgpp, "-E", "-D", "-i", deps[0], "-o", "rtt"], cwd=out_dir, stdout=subprocess.PIPE, stderr=subprocess.STDOUT, text=True)
    if p.returncode != 0:
        raise core.BuildError("parsec-ptgpp -D failed on rtt.jdf: " + p.stdout[-500:])
    inc, defs, libs, _ = core.tree_flags("hooks")
    cmd = ["gcc", "-std=gnu11"] + defs + inc + ["-I" + pp, "-I" + out_dir, os.path.join(out_dir, "rtt.c"), deps[1], deps[2], deps[5],
                                                 "-o", exe + ".tmp"] + libs
    p = subprocess.run(cmd, stdout=subprocess.PIPE, stderr=subprocess.STDOUT, text=True)
    if p.returncode != 0:
        raise core.BuildError("conformance program does not build: " + p.stdout[-1500:])
    os.replace(exe + ".tmp", exe)
    return exe


def collect(res, wr):
    for f in wr.failures:
        res.violations.append(core.Violation(f["msg"], replay_text=f["replay_text"]))
    for c in wr.crashes:
        res.violations.append(core.Violation("harness process died (rc=%s): %s" % (c["rc"], c["log_tail"][-1200:]),
                                             replay_text="# crash of %s\n%s" % (" ".join(c["cmd"]), c["log_tail"][-1500:])))


def _conformance(res, b, quick, seed):
    rd = core.run_dir(PROP)
    env = dict(os.environ)
    env.update(core.MPI_ENV)
    # (a) the simulator's own traces through the grammar checker (same hook H5, same format)
    tf = os.path.join(rd, "simtrace.txt")
    e2 = dict(env)
    e2.update(core.SAN_RUN_ENV)
    e2.update({"C11_TRACE": tf, "RC_PARAMS": "seed=%d max_success=%d max_size=100" % (seed * 977 + 5, 150 if quick else 3000)})
    subprocess.run([b, "rc", "5"], env=e2, stdout=subprocess.DEVNULL, stderr=subprocess.DEVNULL, cwd=rd)
    nsim = 0
    if os.path.exists(tf):
        for blk in split_traces(open(tf).read()):
            for rank, evs in blk.items():
                why = check_trace(evs)
                if why:
                    res.inconclusive = "simulator trace outside its own grammar (rank %d): %s" % (rank, why)
                    return
                nsim += 1
    res.coverage["sim_traces_through_grammar"] = nsim
    # (b) real runs
    exe = _build_conf()
    runs = [(2, 2, 64), (3, 2, 64), (3, 2, 300000), (2, 3, 300000)] if quick else \
           [(np_, loops, size) for np_ in (1, 2, 3, 4) for loops in (1, 3) for size in (8, 64, 300000)]
    nreal = 0
    t0 = time.time()
    for np_, loops, size in runs:
        base = os.path.join(rd, "real_%d_%d_%d" % (np_, loops, size))
        try:
            p = subprocess.run(["mpiexec", "--oversubscribe", "-n", str(np_), exe, base, str(loops), str(size), "2"], env=env, cwd=rd,
                               stdout=subprocess.PIPE, stderr=subprocess.STDOUT, text=True, timeout=120)
        except subprocess.TimeoutExpired:
            res.coverage.setdefault("conformance_timeouts", 0)
            res.coverage["conformance_timeouts"] += 1      # never a violation: hangs of real runs are C05/C11-real-run business
            continue
        if p.returncode != 0:
            res.violations.append(core.Violation("real dynamic-termination run (rtt.jdf -D, %d ranks, %d loops, %d bytes) failed rc=%d: %s" %
                                                 (np_, loops, size, p.returncode, p.stdout[-800:]),
                                                 replay_text="# mpiexec -n %d conf <out> %d %d 2\n%s" % (np_, loops, size, p.stdout[-1500:])))
            continue
        for r in range(np_):
            path = "%s.%d" % (base, r)
            if not os.path.exists(path):
                res.inconclusive = "real run wrote no trace for rank %d" % r
                return
            blocks = split_traces(open(path).read())
            evs = blocks[0].get(r, []) if blocks else []
            why = check_trace(evs)
            if why:
                res.inconclusive = "real trace outside the simulator's grammar (%d ranks, rank %d, %d bytes): %s" % (np_, r, size, why)
                return
            nreal += 1
    res.coverage["traces_validated_against_impl"] = nreal
    res.coverage["conformance_wall_s"] = round(time.time() - t0, 1)


def run(tier, seed, res):
    b = _build()
    quick = tier == "quick"
    res.rule = RULE
    res.assumptions = ["module calls are atomic steps (call-level interleavings; finer thread interleavings inside the module are not explored)",
                       "a rank has at least one pending action when taskpool_ready is called and that action is released afterwards (generated "
                       "code: the startup task that calls taskpool_ready is itself counted) -- observed in the real traces",
                       "application messages are delivered to a rank only after its taskpool_ready (the runtime parks them until the taskpool is "
                       "registered; incoming_message_start asserts it)",
                       "application and control channels are FIFO per (sender, receiver); no loss, no duplication (C14's property)",
                       "at most 30 units of new work (discovered tasks + messages) per history, P <= %d" % (5 if quick else 9)]
    nw = 16
    per = 2500 if quick else 250000
    pmax = 5 if quick else 9
    jobs = [dict(cmd=[b, "rc", str(pmax)], env={"RC_PARAMS": "seed=%d max_success=%d max_size=100" % (seed * 131 + i, per)}, tag="rc")
            for i in range(nw)]
    wr = core.run_workers(PROP, jobs)
    res.absorb(wr, "rc")
    collect(res, wr)
    res.coverage["traces_validated_against_impl"] = 0
    if not res.violations:
        _conformance(res, b, quick, seed)


def replay(path):
    b = _build()
    env = dict(os.environ)
    env.update(core.MPI_ENV)
    env.update(core.SAN_RUN_ENV)
    p = subprocess.run([b, "replay", path], env=env, stdout=subprocess.PIPE, stderr=subprocess.STDOUT, text=True)
    return p.returncode == 0 and "REPLAY-PASS" in p.stdout, p.stdout[-2000:]
