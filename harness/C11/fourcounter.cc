// C11 -- Four-counter distributed termination is safe and live.
//
// P simulated ranks around the real termdet "fourcounter" module (engine E8, ../C12/simranks.hpp).
// A case is (P, initial tasks and startup actions per rank, a word stream).  The event loop runs the
// enabled events in the order chosen by the words (when the words are used up: round-robin, no new work):
//   READY(r)        taskpool_ready
//   ACTION_DONE(r)  taskpool_addto_runtime_actions(-1)      (a startup action, or a completed send)
//   TASK(r)         one task of r completes: [activate: +1 action, outgoing_message_start per destination],
//                   taskpool_addto_nb_tasks(+k) for discovered tasks, taskpool_addto_nb_tasks(-1)
//   APP_START(s,d)  head of the application channel s->d reaches d: incoming_message_start
//   APP_FINISH(d)   its data is complete: +1 action, addto_nb_tasks(+k), incoming_message_end, relay sends
//                   (outgoing_message_start), -1 action (later if it relayed)     [remote_dep_release_incoming]
//   WAVE(s,d)       head of the control channel s->d (UP / DOWN message of the module) is delivered
// Channels are FIFO, everything else interleaves freely.  Safety is checked inside every termination
// callback against the harness's own bookkeeping; liveness at the fixpoint.
#include <set>
#include <algorithm>
#include "vf.hpp"
#include <rapidcheck.h>
#include "../C12/simranks.hpp"

extern "C" {
#include "parsec/mca/termdet/fourcounter/termdet_fourcounter.h"
#include "parsec/class/list.h"
#include "parsec/sys/verif_hooks.h"
}

struct ModuleAssert { char what[400]; };
extern bool g_trap_asserts;

struct Case {
    int P = 1;
    std::vector<int> t0, a0;      // per rank: initial ready tasks (0..3), startup actions (1..2)
    std::vector<int> rd;          // per rank: taskpool_ready is not offered before this many steps (unless nothing else can run)
    std::vector<long> words;
    std::string repr() const {
        std::ostringstream o;
        o << "C11 P " << P << "\nt0"; for (int v : t0) o << " " << v;
        o << "\na0"; for (int v : a0) o << " " << v;
        o << "\nrd"; for (int v : rd) o << " " << v;
        o << "\nwords"; for (long v : words) o << " " << v;
        o << "\n";
        return o.str();
    }
    static bool parse(const std::string &txt, Case *c) {
        std::istringstream in(txt); std::string line; bool head = false;
        while (std::getline(in, line)) {
            if (line.empty() || line[0] == '#') continue;
            std::istringstream ls(line); std::string w; ls >> w;
            if (w == "C11") { std::string k; ls >> k >> c->P; head = true; }
            else if (w == "t0") { int v; while (ls >> v) c->t0.push_back(v); }
            else if (w == "a0") { int v; while (ls >> v) c->a0.push_back(v); }
            else if (w == "rd") { int v; while (ls >> v) c->rd.push_back(v); }
            else if (w == "words") { long v; while (ls >> v) c->words.push_back(v); }
        }
        c->rd.resize(c->P > 0 ? c->P : 0, 0);
        return head && c->P >= 1 && c->P <= 64 && (int)c->t0.size() == c->P && (int)c->a0.size() == c->P;
    }
};

struct Info {
    bool nontrivial = false, app_during_wave = false, rebusy_after_contrib = false, delayed_wave = false;
    int waves_false = 0, app_msgs = 0, steps = 0, relays = 0, half_window_events = 0;
};

enum { EV_READY, EV_ACTION_DONE, EV_TASK, EV_APP_START, EV_APP_FINISH, EV_WAVE };
struct Ev { int kind, a, b; };

static const parsec_termdet_base_module_t *MOD = nullptr;

// ---- state of the running case (harness bookkeeping; the oracle never reads the module's monitor)
struct Run {
    int P = 0;
    std::vector<int> ready, tasks, actions, act_ev, ncb, contributed, got_down_true;
    std::vector<std::deque<int>> half;                       // per rank: sources of messages whose reception has started
    std::map<std::pair<int, int>, std::deque<int>> app;      // application channels
    std::string err;
    Info *info = nullptr;
    bool app_in_flight() const {
        for (auto &kv : app) if (!kv.second.empty()) return true;
        for (auto &h : half) if (!h.empty()) return true;
        return false;
    }
};
static Run *RUN = nullptr;
static FILE *g_trace = nullptr;

static int trace_hook(int ev, void *a, void *b) {
    if (ev == PARSEC_VERIF_EV_TD4C && g_trace) {
        parsec_taskpool_t *tp = (parsec_taskpool_t *)a;
        fprintf(g_trace, "%d %s %d %d\n", sim::rank_of_tp(tp), (const char *)b, (int)tp->nb_tasks, (int)tp->nb_pending_actions);
    }
    return 0;
}

static void term_cb(parsec_taskpool_t *tp) {
    Run &R = *RUN;
    int me = sim::rank_of_tp(tp);
    if (g_trace) fprintf(g_trace, "%d CALLBACK %d %d\n", me, (int)tp->nb_tasks, (int)tp->nb_pending_actions);
    if (++R.ncb[me] > 1 && R.err.empty()) R.err = "termination callback of rank " + std::to_string(me) + " runs a second time";
    if (!R.err.empty()) return;
    // SAFETY: every process idle, every application message sent has been received
    for (int r = 0; r < R.P; r++) {
        std::string why;
        if (!R.ready[r]) why = "is not ready yet (the user may still add work)";
        else if (R.tasks[r] > 0) why = "still has " + std::to_string(R.tasks[r]) + " task(s)";
        else if (R.actions[r] > 0) why = "still has " + std::to_string(R.actions[r]) + " pending action(s)";
        else if (!R.half[r].empty()) why = "is in the middle of receiving an application message from rank " + std::to_string(R.half[r].front());
        if (!why.empty()) { R.err = "rank " + std::to_string(me) + " declares termination while rank " + std::to_string(r) + " " + why; return; }
    }
    for (auto &kv : R.app) if (!kv.second.empty()) {
        R.err = "rank " + std::to_string(me) + " declares termination while " + std::to_string(kv.second.size()) + " application message(s) from rank " +
                std::to_string(kv.first.first) + " to rank " + std::to_string(kv.first.second) + " are still in transit";
        return;
    }
}

static void module_once() {
    if (MOD) return;
    sim::set_world(1);
    parsec_termdet_open_module(sim::W().tp[0], (char *)"fourcounter");   // component query: registers the AM tag, builds the delayed list
    MOD = sim::W().tp[0]->tdm.module;
    if (MOD != &parsec_termdet_fourcounter_module.module) { fprintf(stderr, "unexpected module table\n"); exit(2); }
    sim::W().tp[0]->tdm.module = NULL;
    parsec_verif_event_fn = trace_hook;
    sim::W().on_send = [](sim::Msg &m) {
        sim::World &w = sim::W();
        if (m.tag != PARSEC_TERMDET_FOURCOUNTER_MSG_TAG || m.bytes.size() < sizeof(parsec_termdet_fourcounter_msg_down_t)) {
            if (w.error.empty()) w.error = "unexpected message (tag/size) sent by the fourcounter module"; return;
        }
        parsec_termdet_fourcounter_msg_down_t *d = (parsec_termdet_fourcounter_msg_down_t *)m.bytes.data();
        d->tp_id = w.tp[m.dst]->taskpool_id;     // same taskpool on every process <=> per-rank id in the one simulated process
        if (!RUN) return;
        Run &R = *RUN;
        if (R.app_in_flight()) R.info->app_during_wave = true;
        if (d->msg_type == PARSEC_TERMDET_FOURCOUNTER_MSG_TYPE_UP) R.contributed[m.src] = 1;
        else if (m.src == 0 && m.dst == 1 && !d->result) R.info->waves_false++;
        if (g_trace) fprintf(g_trace, "%d SEND_%s %d %d\n", m.src, d->msg_type == PARSEC_TERMDET_FOURCOUNTER_MSG_TYPE_UP ? "UP" : "DOWN", m.dst, (int)d->result);
    };
}

struct Words {
    const std::vector<long> &w; size_t i = 0;
    bool dry() const { return i >= w.size(); }
    long next() { long v = i < w.size() ? w[i] : 0; i++; return v < 0 ? -v : v; }
};

static void reset_module_state(int P) {
    sim::World &w = sim::W();
    parsec_list_unlock(&parsec_termdet_fourcounter_delayed_messages);
    while (parsec_list_item_t *it = parsec_list_pop_front(&parsec_termdet_fourcounter_delayed_messages)) free(it);
    for (int r = 0; r < P; r++) {
        parsec_taskpool_t *tp = w.tp[r];
        if (tp->tdm.monitor) { free(tp->tdm.monitor); tp->tdm.monitor = NULL; }
        tp->tdm.module = NULL; tp->tdm.callback = NULL; tp->nb_tasks = 0; tp->nb_pending_actions = 0;
    }
}

static std::string run_case(const Case &c, Info *info, int budget = 30) {
    module_once();
    sim::World &w = sim::W();
    const int P = c.P;
    sim::set_world(P);
    Run R; R.P = P; R.info = info;
    R.ready.assign(P, 0); R.tasks.assign(P, 0); R.actions.assign(P, 0); R.act_ev.assign(P, 0); R.ncb.assign(P, 0);
    R.contributed.assign(P, 0); R.got_down_true.assign(P, 0); R.half.assign(P, {});
    RUN = &R;
    Words W{c.words};
    g_trap_asserts = true;
    try {
        for (int r = 0; r < P; r++) {
            parsec_taskpool_t *tp = w.tp[r];
            tp->tdm.module = MOD;
            sim::AsRank as(r);
            MOD->monitor_taskpool(tp, term_cb);
            int a = std::max(1, std::min(2, c.a0[r])), t = std::max(0, std::min(3, c.t0[r]));
            R.actions[r] = a; R.act_ev[r] = a; MOD->taskpool_addto_runtime_actions(tp, a);   // startup tasks of the DSL, counted in the constructor
            if (t) { R.tasks[r] = t; MOD->taskpool_addto_nb_tasks(tp, t); }                   // tasks found by the startup tasks, before taskpool_ready
        }
        size_t rr = 0; int quiet_waves = 0;
        std::vector<Ev> en;
        for (;;) {
            if (!R.err.empty() || !w.error.empty()) break;
            en.clear();
            for (int r = 0; r < P; r++) if (!R.ready[r] && info->steps >= c.rd[r]) en.push_back({EV_READY, r, 0});
            for (int r = 0; r < P; r++) if (R.act_ev[r] > (R.ready[r] ? 0 : 1)) en.push_back({EV_ACTION_DONE, r, 0});   // one startup action outlives taskpool_ready
            for (int r = 0; r < P; r++) if (R.ready[r] && R.tasks[r] > 0) en.push_back({EV_TASK, r, 0});
            for (auto &kv : R.app) if (!kv.second.empty() && R.ready[kv.first.second]) en.push_back({EV_APP_START, kv.first.first, kv.first.second});
            for (int r = 0; r < P; r++) if (!R.half[r].empty()) en.push_back({EV_APP_FINISH, r, 0});
            size_t nonwave = en.size();
            for (auto &kv : w.chan) if (!kv.second.empty()) en.push_back({EV_WAVE, kv.first.first, kv.first.second});
            if (en.empty()) { for (int r = 0; r < P; r++) if (!R.ready[r]) en.push_back({EV_READY, r, 0}); nonwave = en.size(); }
            if (en.empty()) break;
            bool drain = W.dry();
            size_t pick = drain ? (rr++ % en.size()) : (size_t)(W.next() % (long)en.size());
            Ev e = en[pick];
            info->steps++;
            bool all_ready = true; for (int r = 0; r < P; r++) if (!R.ready[r]) all_ready = false;
            if (nonwave == 0 && all_ready) {
                // everything idle, no application message anywhere: only control messages move.  From here the detector needs
                // a bounded number of waves (collect, confirm); far beyond that bound it is not making progress.
                if (++quiet_waves > 12 * P + 24) { R.err = "all ranks are idle and no message is in transit, but after " + std::to_string(quiet_waves) + " further control messages termination is still not declared everywhere"; break; }
            } else quiet_waves = 0;
            if (info->steps > 20000) { R.err = "harness: step bound"; break; }
            parsec_taskpool_t *tp = w.tp[e.a];
            switch (e.kind) {
            case EV_READY: { sim::AsRank as(e.a); R.ready[e.a] = 1; MOD->taskpool_ready(tp); break; }
            case EV_ACTION_DONE: { sim::AsRank as(e.a); R.act_ev[e.a]--; R.actions[e.a]--; MOD->taskpool_addto_runtime_actions(tp, -1); break; }
            case EV_TASK: {
                int r = e.a; sim::AsRank as(r);
                int nsend = (P > 1 && budget > 0 && !drain) ? (int)(W.next() % 3) : 0;
                if (nsend) {
                    R.actions[r]++; R.act_ev[r]++; MOD->taskpool_addto_runtime_actions(tp, 1);       // remote_dep_inc_flying_messages
                    std::set<int> used;
                    for (int j = 0; j < nsend; j++) {
                        int dst = (r + 1 + (int)(W.next() % (P - 1))) % P;
                        if (!used.insert(dst).second) continue;                                      // one activation per peer and task
                        R.app[{r, dst}].push_back(r); info->app_msgs++; budget--;
                        MOD->outgoing_message_start(tp, dst, NULL);
                        MOD->outgoing_message_pack(tp, dst, NULL, NULL, 0);
                    }
                }
                int k = (budget > 0 && !drain) ? (int)(W.next() % 3) : 0;
                if (k) { budget -= k; R.tasks[r] += k; MOD->taskpool_addto_nb_tasks(tp, k); }
                R.tasks[r]--; MOD->taskpool_addto_nb_tasks(tp, -1);
                break;
            }
            case EV_APP_START: {
                int s = e.a, d = e.b; sim::AsRank as(d);
                R.app[{s, d}].pop_front(); R.half[d].push_back(s);
                if (R.contributed[d] && R.tasks[d] == 0 && R.actions[d] == 0) info->rebusy_after_contrib = true;
                MOD->incoming_message_start(w.tp[d], s, NULL, NULL, 0, NULL);
                break;
            }
            case EV_APP_FINISH: {
                int d = e.a; sim::AsRank as(d);
                R.actions[d]++; MOD->taskpool_addto_runtime_actions(tp, 1);                            // remote_dep_release_incoming: inc_flying
                int k = (budget > 0 && !drain) ? (int)(W.next() % 3) : 0;
                if (k) { budget -= k; R.tasks[d] += k; MOD->taskpool_addto_nb_tasks(tp, k); }         // release_deps: local successors become ready
                R.half[d].pop_front();
                MOD->incoming_message_end(tp, NULL);
                int relay = (P > 1 && budget > 0 && !drain) ? (int)(W.next() % 2) : 0;
                if (relay) {                                                                          // parsec_remote_dep_propagate
                    int dst = (d + 1 + (int)(W.next() % (P - 1))) % P;
                    R.app[{d, dst}].push_back(d); info->app_msgs++; info->relays++; budget--;
                    MOD->outgoing_message_start(tp, dst, NULL);
                    MOD->outgoing_message_pack(tp, dst, NULL, NULL, 0);
                    R.act_ev[d]++;                                                                    // the -1 comes when the relayed send completes
                } else { R.actions[d]--; MOD->taskpool_addto_runtime_actions(tp, -1); }
                break;
            }
            case EV_WAVE: {
                int s = e.a, d = e.b;
                if (!R.ready[d]) info->delayed_wave = true;
                auto &q = w.chan[{s, d}];
                parsec_termdet_fourcounter_msg_down_t *m = (parsec_termdet_fourcounter_msg_down_t *)q.front().bytes.data();
                if (m->msg_type == PARSEC_TERMDET_FOURCOUNTER_MSG_TYPE_DOWN) R.contributed[d] = 0;
                for (auto &h : R.half) if (!h.empty()) info->half_window_events++;
                sim::deliver(s, d);
                break;
            }
            }
        }
        if (R.err.empty() && !w.error.empty()) R.err = w.error;
        // LIVENESS at the fixpoint: all work done, no message anywhere => every rank has declared termination, once
        if (R.err.empty()) {
            for (int r = 0; r < P && R.err.empty(); r++) {
                if (R.tasks[r] || R.actions[r] || !R.half[r].empty() || !R.ready[r]) R.err = "harness: fixpoint reached with work left on rank " + std::to_string(r);
                else if (R.ncb[r] == 0) R.err = "all ranks are idle and no message is in transit, but rank " + std::to_string(r) + " never declares termination";
                else if (R.ncb[r] != 1) R.err = "rank " + std::to_string(r) + " declared termination " + std::to_string(R.ncb[r]) + " times";
                else if (MOD->taskpool_state(w.tp[r]) != PARSEC_TERM_TP_TERMINATED) R.err = "rank " + std::to_string(r) + " had its callback but is not in state TERMINATED";
            }
        }
    } catch (ModuleAssert &m) {
        R.err = std::string("module ") + m.what;
    }
    g_trap_asserts = false;
    RUN = nullptr;
    reset_module_state(P);
    info->nontrivial = P >= 3 && info->app_during_wave && info->rebusy_after_contrib;
    return R.err;
}

static void labels(const Case &c, const Info &i) {
    vf::label(std::string("P_") + std::to_string(c.P));
    if (i.app_during_wave) vf::label("app_message_in_flight_during_wave");
    if (i.rebusy_after_contrib) vf::label("idle_to_busy_after_contributing");
    if (i.delayed_wave) vf::label("wave_message_before_ready(delayed_list)");
    if (i.half_window_events) vf::label("wave_delivered_inside_receive_window");
    if (i.relays) vf::label("relay_send");
    vf::label(i.app_msgs == 0 ? "app_msgs_0" : i.app_msgs <= 3 ? "app_msgs_1_3" : i.app_msgs <= 10 ? "app_msgs_4_10" : "app_msgs_11plus");
    vf::label(i.waves_false == 0 ? "false_waves_0" : i.waves_false <= 2 ? "false_waves_1_2" : "false_waves_3plus");
}

template <typename T> static rc::Gen<T> R_(T lo, T hi) { return rc::gen::resize(100, rc::gen::inRange<T>(lo, hi)); }

int main(int argc, char **argv) {
    std::string mode = argc > 1 ? argv[1] : "rc";
    sim::init_runtime(&argc, &argv);
    if (const char *t = getenv("C11_TRACE")) g_trace = fopen(t, "w");
    if (mode == "replay") {
        Case c;
        if (!Case::parse(vf::slurp(argv[2]), &c)) { printf("REPLAY-FAIL cannot parse %s\n", argv[2]); return 2; }
        Info i; std::string e = run_case(c, &i);
        if (g_trace) fclose(g_trace);
        if (e.empty()) { printf("REPLAY-PASS\n"); return 0; }
        printf("REPLAY-FAIL %s\n", e.c_str()); return 1;
    }
    int pmax = argc > 2 ? atoi(argv[2]) : 5;
    bool ok = rc::check("fourcounter: no early termination, and termination everywhere at the fixpoint", [pmax]() {
        Case c;
        c.P = *R_(1, pmax + 1);
        for (int r = 0; r < c.P; r++) { c.t0.push_back(*R_(0, 4)); c.a0.push_back(*R_(1, 3)); c.rd.push_back(*R_(0, 3) == 0 ? *R_(1, 40) : 0); }
        int len = *R_(0, 260);
        c.words = *rc::gen::container<std::vector<long>>((size_t)len, R_<long>(0, 1 << 16));
        if (g_trace) fprintf(g_trace, "# case\n");
        Info i; std::string e = run_case(c, &i);
        vf::note_case(c.repr(), i.nontrivial); labels(c, i);
        if (!e.empty()) { vf::record_failure(c.repr(), e); RC_FAIL(e); }
    });
    if (g_trace) fclose(g_trace);
    vf::dump();
    return ok ? 0 : 1;
}
