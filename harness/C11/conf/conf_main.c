/* C11 conformance step: a real distributed PTG program (tests/apps/pingpong/rtt.jdf compiled with
 * `parsec-ptgpp -D`, i.e. dynamic = four-counter termination detection) runs on 2..3 MPI ranks with
 * hook H5 installed; every call into the four-counter module is logged as
 *     <rank> <function> <nb_tasks> <nb_pending_actions>
 * (values read at the entry of the call).  check.py verifies that each per-rank trace is a word of
 * the grammar the simulator generates. */
#include "parsec/runtime.h"
#include "parsec/parsec_internal.h"
#include "parsec/sys/verif_hooks.h"
#include "rtt_wrapper.h"
#include "rtt_data.h"
#include <mpi.h>
#include <pthread.h>
#include <stdio.h>
#include <stdlib.h>
#include <string.h>

#define MAXEV 200000
static struct { const char *name; int nt, npa; } ev[MAXEV];
static int nev = 0;
static pthread_mutex_t mu = PTHREAD_MUTEX_INITIALIZER;

static int hook(int e, void *a, void *b)
{
    if( e != PARSEC_VERIF_EV_TD4C ) return 0;
    parsec_taskpool_t *tp = (parsec_taskpool_t*)a;
    pthread_mutex_lock(&mu);
    if( nev < MAXEV ) { ev[nev].name = (const char*)b; ev[nev].nt = tp->nb_tasks; ev[nev].npa = tp->nb_pending_actions; nev++; }
    pthread_mutex_unlock(&mu);
    return 0;
}

int main(int argc, char *argv[])
{
    int provided, rank, world, rc;
    int loops = argc > 2 ? atoi(argv[2]) : 3, size = argc > 3 ? atoi(argv[3]) : 64, cores = argc > 4 ? atoi(argv[4]) : 2;
    int pargc = 0; char **pargv = NULL;
    MPI_Init_thread(&argc, &argv, MPI_THREAD_SERIALIZED, &provided);
    MPI_Comm_size(MPI_COMM_WORLD, &world);
    MPI_Comm_rank(MPI_COMM_WORLD, &rank);
    parsec_context_t *parsec = parsec_init(cores, &pargc, &pargv);
    parsec_verif_event_fn = hook;
    parsec_data_collection_t *dcA = create_and_distribute_data(rank, world, size);
    parsec_data_collection_set_key(dcA, "A");
    parsec_taskpool_t *rtt = rtt_new(dcA, size, loops * world);
    rc = parsec_context_add_taskpool(parsec, rtt);
    if( rc != 0 ) { fprintf(stderr, "add_taskpool failed\n"); return 2; }
    MPI_Barrier(MPI_COMM_WORLD);
    rc = parsec_context_start(parsec);
    if( rc != 0 ) { fprintf(stderr, "start failed\n"); return 2; }
    rc = parsec_context_wait(parsec);
    if( rc != 0 ) { fprintf(stderr, "wait failed\n"); return 2; }
    MPI_Barrier(MPI_COMM_WORLD);
    parsec_verif_event_fn = NULL;
    char path[1024];
    snprintf(path, sizeof path, "%s.%d", argv[1], rank);
    FILE *f = fopen(path, "w");
    for(int i = 0; i < nev; i++) fprintf(f, "%d %s %d %d\n", rank, ev[i].name, ev[i].nt, ev[i].npa);
    fprintf(f, "%d END 0 0\n", rank);
    fclose(f);
    parsec_taskpool_free(rtt);
    free_data(dcA);
    parsec_fini(&parsec);
    MPI_Finalize();
    return 0;
}
