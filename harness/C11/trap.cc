// Turns a failing assert() inside libparsec (module code running on behalf of a simulated rank) into a
// C++ exception, so that a violated module assertion becomes an ordinary, shrinkable failing case instead
// of a dead process.  This translation unit must not see glibc's own declaration of __assert_fail
// (declared nothrow there), hence no <cassert>/<assert.h> here.
#include <cstdio>
#include <cstdlib>
#include <cstring>

struct ModuleAssert { char what[400]; };
bool g_trap_asserts = false;

extern "C" void __assert_fail(const char *expr, const char *file, unsigned int line, const char *func) {
    if (g_trap_asserts) {
        ModuleAssert m;
        const char *b = strrchr(file, '/');
        snprintf(m.what, sizeof m.what, "assertion `%s' failed in %s (%s:%u)", expr, func ? func : "?", b ? b + 1 : file, line);
        throw m;
    }
    fprintf(stderr, "%s:%u: %s: Assertion `%s' failed.\n", file, line, func ? func : "?", expr);
    abort();
}
