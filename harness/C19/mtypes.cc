// C19 -- Matrix datatypes select exactly the specified elements.
//
// One check (run_case) for a value (elt, uplo, diag, m, n, ld, resized): build the
// datatype with parsec_matrix_define_datatype, MPI_Pack an index-valued buffer of
// two consecutive tiles with it and compare the packed index list with the
// mathematical region in column-major order; check size / lb / extent / true extent;
// MPI_Unpack into a poisoned buffer and check that nothing else is written.
// Drivers: exh (complete enumeration of a box), rc (rapidcheck, wider ranges), replay.
// Replay file: "elt uplo diag m n ld resized" (ints; uplo 0=full 1=upper 2=lower;
// elt 0=int32 1=double 2=double complex; resized as passed to the function).
#include "vf.hpp"
#include <rapidcheck.h>
#include <mpi.h>

extern "C" {
#include "parsec/parsec_config.h"
#include "parsec/runtime.h"
#include "parsec/constants.h"
#include "parsec/datatype.h"
#include "parsec/data_dist/matrix/matrix.h"
}

struct Case {
    int elt, uplo, diag, m, n, ld, resized;
    std::string repr() const {
        std::ostringstream o;
        o << elt << " " << uplo << " " << diag << " " << m << " " << n << " " << ld << " " << resized << "\n";
        return o.str();
    }
    bool nontrivial() const { return m != n || ld > m || (uplo != 0 && diag == 0); }
};

static const char *uplo_name[] = {"full", "upper", "lower"};

static std::string fmt_list(const std::vector<long> &v) {
    std::ostringstream o; o << "[";
    for (size_t i = 0; i < v.size() && i < 40; i++) o << (i ? "," : "") << v[i];
    if (v.size() > 40) o << ",...(" << v.size() << ")";
    o << "]"; return o.str();
}

// element value <-> linear index, for the three element types
static size_t elt_size(int elt) { return elt == 0 ? 4 : elt == 1 ? 8 : 16; }
static void put(char *base, int elt, long pos, long val) {
    if (elt == 0) ((int32_t *)base)[pos] = (int32_t)val;
    else if (elt == 1) ((double *)base)[pos] = (double)val;
    else { ((double *)base)[2 * pos] = (double)val; ((double *)base)[2 * pos + 1] = -(double)val - 1.0; }
}
static bool get(const char *base, int elt, long pos, long *val) {
    if (elt == 0) { *val = ((const int32_t *)base)[pos]; return true; }
    if (elt == 1) { *val = (long)((const double *)base)[pos]; return (double)*val == ((const double *)base)[pos]; }
    *val = (long)((const double *)base)[2 * pos];
    return ((const double *)base)[2 * pos + 1] == -(double)*val - 1.0;
}

static std::string run_case(const Case &c) {
    parsec_datatype_t old = c.elt == 0 ? parsec_datatype_int32_t : c.elt == 1 ? parsec_datatype_double_t : parsec_datatype_double_complex_t;
    parsec_matrix_uplo_t uplo = c.uplo == 0 ? PARSEC_MATRIX_FULL : c.uplo == 1 ? PARSEC_MATRIX_UPPER : PARSEC_MATRIX_LOWER;
    const size_t es = elt_size(c.elt);
    const long tile = (long)c.ld * c.n;

    // the mathematical region, column major
    std::vector<long> want;
    for (int j = 0; j < c.n; j++)
        for (int i = 0; i < c.m; i++) {
            bool in = true;
            if (c.uplo == 1) in = c.diag ? (i <= j) : (i < j);
            if (c.uplo == 2) in = c.diag ? (i >= j) : (i > j);
            if (in) want.push_back((long)j * c.ld + i);
        }

    parsec_datatype_t dt = PARSEC_DATATYPE_NULL;
    ptrdiff_t ext_out = -12345;
    int rc = parsec_matrix_define_datatype(&dt, old, uplo, c.diag, (unsigned)c.m, (unsigned)c.n, (unsigned)c.ld, c.resized, &ext_out);
    if (rc != PARSEC_SUCCESS) return "parsec_matrix_define_datatype returned " + std::to_string(rc);
    if (dt == PARSEC_DATATYPE_NULL) return "no datatype returned";
    std::string err;
    do {
        int tsize = -1;
        MPI_Type_size(dt, &tsize);
        if ((long)tsize != (long)want.size() * (long)es) {
            err = "type size " + std::to_string(tsize) + " bytes, the region has " + std::to_string(want.size()) + " elements of " + std::to_string(es) + " bytes";
            break;
        }
        MPI_Aint lb = -1, ext = -1;
        MPI_Type_get_extent(dt, &lb, &ext);
        if (lb != 0) { err = "lower bound " + std::to_string((long)lb) + " != 0"; break; }
        if ((ptrdiff_t)ext != ext_out) { err = "extent argument " + std::to_string((long)ext_out) + " != MPI extent " + std::to_string((long)ext); break; }
        if (ext % (MPI_Aint)es) { err = "extent " + std::to_string((long)ext) + " is not a multiple of the element size"; break; }
        long ee = (long)(ext / (MPI_Aint)es);
        long last = want.empty() ? -1 : want.back();
        bool resized_applies = (c.uplo == 0 && c.resized >= 0);
        if (resized_applies) {
            if (ee != c.resized) { err = "extent " + std::to_string(ee) + " elements, resized asked for " + std::to_string(c.resized); break; }
            vf::label("extent_resized");
        } else if (c.uplo != 0) {
            if (ee != tile) { err = "triangle extent " + std::to_string(ee) + " elements != ld*n = " + std::to_string(tile); break; }
            vf::label("extent_triangle_tile");
        } else {
            if (!(last < ee && ee <= tile)) { err = "extent " + std::to_string(ee) + " elements does not cover the last selected element " + std::to_string(last) + " within ld*n = " + std::to_string(tile); break; }
            vf::label(ee == tile ? "extent_natural_eq_tile" : "extent_natural_lt_tile");
        }
        if (!want.empty()) {
            MPI_Aint tlb = -1, text = -1;
            MPI_Type_get_true_extent(dt, &tlb, &text);
            if (tlb != (MPI_Aint)(want.front() * (long)es) || tlb + text != (MPI_Aint)((last + 1) * (long)es)) {
                err = "true bounds [" + std::to_string((long)tlb) + "," + std::to_string((long)(tlb + text)) + ") bytes, region spans elements [" +
                      std::to_string(want.front()) + "," + std::to_string(last) + "]";
                break;
            }
        }
        // two consecutive items of the type: the second one starts one extent later
        const int cnt = (ee >= last + 1) ? 2 : 1;          // overlapping items make no sense to unpack; extent covers the tile otherwise
        long span = (cnt - 1) * ee + tile;                 // elements the buffer must hold
        if (span < ee * cnt) span = ee * cnt;
        std::vector<char> buf((size_t)(span + 2) * es), back((size_t)(span + 2) * es);
        for (long k = 0; k < span + 2; k++) put(buf.data(), c.elt, k, k);
        std::vector<long> want2 = want;
        if (cnt == 2) for (long w : want) want2.push_back(w + ee);
        int psz = 0;
        MPI_Pack_size(cnt, dt, MPI_COMM_SELF, &psz);
        std::vector<char> packed((size_t)psz + 64, (char)0x5c);
        int pos = 0;
        if (MPI_Pack(buf.data(), cnt, dt, packed.data(), (int)packed.size(), &pos, MPI_COMM_SELF) != MPI_SUCCESS) { err = "MPI_Pack failed"; break; }
        if ((long)pos != (long)want2.size() * (long)es) {
            err = "packed " + std::to_string(pos) + " bytes for " + std::to_string(cnt) + " item(s), expected " + std::to_string(want2.size() * es);
            break;
        }
        std::vector<long> got;
        bool clean = true;
        for (size_t k = 0; k < want2.size(); k++) { long v; clean &= get(packed.data(), c.elt, (long)k, &v); got.push_back(v); }
        if (!clean || got != want2) {
            err = "packed elements " + fmt_list(got) + " differ from the region " + fmt_list(want2) + " (linear indices, column major" + (cnt == 2 ? ", two items" : "") + ")";
            break;
        }
        // scatter back: exactly the region is written
        const long POISON = -777;
        for (long k = 0; k < span + 2; k++) put(back.data(), c.elt, k, POISON);
        pos = 0;
        if (MPI_Unpack(packed.data(), (int)(want2.size() * es), &pos, back.data(), cnt, dt, MPI_COMM_SELF) != MPI_SUCCESS) { err = "MPI_Unpack failed"; break; }
        size_t wi = 0;
        std::vector<long> sorted = want2;   // already ascending for cnt==1; for two items ascending as ee >= last+1
        for (long k = 0; k < span + 2 && err.empty(); k++) {
            long v; bool okv = get(back.data(), c.elt, k, &v);
            bool sel = wi < sorted.size() && sorted[wi] == k;
            if (sel) { wi++; if (!okv || v != k) err = "unpack did not restore selected element " + std::to_string(k); }
            else if (!okv || v != POISON) err = "unpack wrote element " + std::to_string(k) + " which is outside the region";
        }
    } while (0);
    MPI_Type_free(&dt);
    return err;
}

static bool parse_case(const std::string &txt, Case *c) {
    std::vector<long> v = vf::parse_ints(txt);
    if (v.size() < 7) return false;
    c->elt = (int)v[0]; c->uplo = (int)v[1]; c->diag = (int)v[2]; c->m = (int)v[3]; c->n = (int)v[4]; c->ld = (int)v[5]; c->resized = (int)v[6];
    return c->elt >= 0 && c->elt <= 2 && c->uplo >= 0 && c->uplo <= 2 && c->m >= 1 && c->n >= 1 && c->ld >= c->m;
}

static bool one(const Case &c, std::string *e) {
    *e = run_case(c);
    vf::note_case(c.repr(), c.nontrivial());
    vf::label(std::string("uplo_") + uplo_name[c.uplo] + (c.uplo ? (c.diag ? "_diag" : "_strict") : ""));
    vf::label(c.m == c.ld ? "ld_eq_m" : "ld_gt_m");
    vf::label(c.m < c.n ? "m_lt_n" : c.m == c.n ? "m_eq_n" : "m_gt_n");
    if (!e->empty()) {
        *e = std::string(uplo_name[c.uplo]) + " diag=" + std::to_string(c.diag) + " m=" + std::to_string(c.m) + " n=" + std::to_string(c.n) +
             " ld=" + std::to_string(c.ld) + " resized=" + std::to_string(c.resized) + " elt=" + std::to_string(c.elt) + ": " + *e;
        vf::record_failure(c.repr(), *e);
        return false;
    }
    return true;
}

int main(int argc, char **argv) {
    std::string mode = argc > 1 ? argv[1] : "rc";
    int prov;
    MPI_Init_thread(&argc, &argv, MPI_THREAD_SERIALIZED, &prov);
    int ret = 0;
    if (mode == "replay") {
        Case c; std::string e;
        if (!parse_case(vf::slurp(argv[2]), &c)) { printf("REPLAY-BADFILE\n"); ret = 2; }
        else { e = run_case(c); if (e.empty()) printf("REPLAY-PASS\n"); else { printf("REPLAY-FAIL %s\n", e.c_str()); ret = 1; } }
    } else if (mode == "exh") {
        // exh MAXMN MAXPAD NELT part nparts : m,n in 1..MAXMN, ld in m..m+MAXPAD, all uplo/diag, resized in {-1, ld*n}
        int MAXMN = atoi(argv[2]), MAXPAD = atoi(argv[3]), NELT = atoi(argv[4]), part = atoi(argv[5]), nparts = atoi(argv[6]);
        uint64_t cnt = 0, fails = 0; std::string e, first;
        long idx = 0;
        for (int m = 1; m <= MAXMN; m++) for (int n = 1; n <= MAXMN; n++) {
            if ((idx++ % nparts) != part) continue;
            for (int pad = 0; pad <= MAXPAD; pad++) for (int uplo = 0; uplo < 3; uplo++) for (int diag = 0; diag < 2; diag++)
                for (int rz = 0; rz < 2; rz++) for (int elt = 0; elt < NELT; elt++) {
                    Case c{elt, uplo, diag, m, n, m + pad, rz ? (m + pad) * n : -1};
                    cnt++;
                    // keep going after a failure so that the *smallest* failing case is the one recorded first; stop after a few
                    if (fails == 0) { if (!one(c, &e)) { fails++; first = e; } }
                }
            if (fails) break;
        }
        vf::R().extra["exhaustive_cases"] = std::to_string(cnt);
        vf::dump();
        ret = fails ? 1 : 0;
    } else {
        bool ok = rc::check("matrix datatype selects exactly the region; extent covers the tile", []() {
            Case c;
            c.elt = *rc::gen::resize(100, rc::gen::inRange(0, 3));
            c.uplo = *rc::gen::resize(100, rc::gen::inRange(0, 3));
            c.diag = *rc::gen::resize(100, rc::gen::inRange(0, 2));
            const int big = *rc::gen::resize(100, rc::gen::inRange(0, 4));
            const int lim = big == 0 ? 200 : 48;
            c.m = *rc::gen::resize(100, rc::gen::inRange(1, lim + 1));
            c.n = (*rc::gen::resize(100, rc::gen::inRange(0, 5)) == 0) ? c.m : *rc::gen::resize(100, rc::gen::inRange(1, lim + 1));
            c.ld = c.m + ((*rc::gen::resize(100, rc::gen::inRange(0, 3)) == 0) ? 0 : *rc::gen::resize(100, rc::gen::inRange(1, 40)));
            const int rzk = *rc::gen::resize(100, rc::gen::inRange(0, 4));
            // resized: none / the tile / any value that still covers the selected elements (documented: "any positive value")
            if (rzk == 0) c.resized = -1;
            else if (rzk == 1) c.resized = c.ld * c.n;
            else c.resized = (c.n - 1) * c.ld + c.m + *rc::gen::resize(100, rc::gen::inRange(0, 3 * c.ld + 2));
            vf::label(rzk == 0 ? "resized_none" : rzk == 1 ? "resized_tile" : "resized_other");
            std::string e;
            if (!one(c, &e)) RC_FAIL(e);
        });
        vf::dump();
        ret = ok ? 0 : 1;
    }
    MPI_Finalize();
    return ret;
}
