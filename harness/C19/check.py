"""C19 -- matrix datatypes: exhaustive enumeration + rapidcheck over wider ranges, oracle = MPI_Pack of an index buffer."""
import os
import subprocess

from vf import core

PROP = "C19"
TREE = "san"      # MPI singleton works under ASan/UBSan (leak checking is off); catches overruns of blocklens/indices
RULE = ("case = (element type, uplo full/upper/lower, diag, m, n, ld, resized) given to parsec_matrix_define_datatype; oracle = "
        "MPI_Pack of two consecutive tiles holding their own linear indices must yield exactly the mathematical region in "
        "column-major order (second item one extent later), MPI_Type_size, lb == 0, extent (== resized when asked for a full tile, "
        "== ld*n for triangles, covering the last element and <= ld*n otherwise), true extent, and MPI_Unpack writes only the "
        "region; non-trivial = m != n or ld > m or the diagonal is excluded; distinct = distinct parameter tuples")


def _build():
    return core.build_harness("C19/mtypes", ["harness/C19/mtypes.cc"], tree=TREE, rapidcheck=True)


def _collect(res, wr):
    for f in wr.failures:
        res.violations.append(core.Violation(f["msg"], replay_text=f["replay_text"]))
    for c in wr.crashes:
        if c["rc"] == "timeout":
            res.inconclusive = "worker timeout (%s)" % c["tag"]
            continue
        key = [l for l in c["log_tail"].splitlines() if "ERROR: AddressSanitizer" in l or "runtime error" in l or "MPI_ERR" in l or "Assertion" in l]
        res.violations.append(core.Violation("harness process died (rc=%s): %s" % (c["rc"], (key[0] if key else c["log_tail"][-1200:])[:600]),
                                             replay_text="# crash of %s\n%s" % (" ".join(c["cmd"]), c["log_tail"][-1500:])))


def run(tier, seed, res):
    b = _build()
    quick = tier == "quick"
    res.rule = RULE
    res.assumptions = ["m, n >= 1 and ld >= m (callers pass tile sizes and the tile leading dimension)",
                       "diag != 0 means 'with the diagonal' (as the reshape tests and the adt_define_upper/lower callers use it)",
                       "resized is -1, ld*n, or (rapidcheck part) any positive value covering the selected elements, as documented in matrix.h",
                       "Open MPI's MPI_Pack on MPI_COMM_SELF packs elements in type-map order without a header"]
    n = 12
    maxmn, nelt = (12, 2) if quick else (40, 3)
    jobs = [dict(cmd=[b, "exh", str(maxmn), "3", str(nelt), str(i), str(n)], tag="exh", timeout=1500) for i in range(n)]
    wr = core.run_workers(PROP, jobs)
    res.absorb(wr, "exhaustive")
    res.coverage["exhaustive"] = not (wr.failures or wr.crashes)
    res.coverage["exhaustive_subspace"] = ("all m,n in 1..%d, ld in m..m+3, uplo in {full,upper,lower}, diag in {0,1}, resized in {-1, ld*n}, "
                                           "%d element types (int32, double%s)" % (maxmn, nelt, ", double complex" if nelt > 2 else ""))
    _collect(res, wr)
    per = 1500 if quick else 150000
    jobs = [dict(cmd=[b, "rc"], env={"RC_PARAMS": "seed=%d max_success=%d max_size=100" % (seed * 131 + i, per)}, tag="rc", timeout=1500)
            for i in range(8)]
    wr = core.run_workers(PROP, jobs)
    res.absorb(wr, "rc")
    _collect(res, wr)


def replay(path):
    b = _build()
    env = dict(os.environ)
    env.update(core.MPI_ENV)
    env.update(core.SAN_RUN_ENV)
    p = subprocess.run([b, "replay", path], env=env, stdout=subprocess.PIPE, stderr=subprocess.STDOUT, text=True)
    return p.returncode == 0 and "REPLAY-PASS" in p.stdout, p.stdout[-2000:]
