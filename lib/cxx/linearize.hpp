// Wing & Gong linearizability search with memoisation, for short complete histories.
// Model requirements:  bool apply(const Op&)  -- applies the op if its recorded result is what the
// sequential object would return in this state (then mutates), else returns false;
// std::string key() const -- canonical state for memoisation.
#pragma once
#include <cstdint>
#include <set>
#include <string>
#include <vector>
#include <utility>

namespace lin {

template <class Op, class Model>
struct Search {
    const std::vector<Op> &h;
    std::set<std::pair<uint64_t, std::string>> seen;
    uint64_t nodes = 0;
    explicit Search(const std::vector<Op> &hist) : h(hist) {}
    // Op must expose uint64_t inv, resp (inv < resp; stamps from the scheduler's step counter)
    bool go(uint64_t done, const Model &m) {
        if (done == ((h.size() >= 64) ? ~0ULL : ((1ULL << h.size()) - 1))) return true;
        nodes++;
        if (!seen.insert({done, m.key()}).second) return false;
        // earliest response among the pending ops: an op can be linearized next only if it was invoked before that
        uint64_t min_resp = ~0ULL;
        for (size_t i = 0; i < h.size(); i++) if (!(done >> i & 1) && h[i].resp < min_resp) min_resp = h[i].resp;
        for (size_t i = 0; i < h.size(); i++) {
            if (done >> i & 1) continue;
            if (h[i].inv >= min_resp) continue;   // some pending op returned before this one was invoked
            Model m2 = m;
            if (m2.apply(h[i]) && go(done | (1ULL << i), m2)) return true;
        }
        return false;
    }
};

template <class Op, class Model>
bool linearizable(const std::vector<Op> &h, const Model &init, uint64_t *nodes = nullptr) {
    if (h.size() > 63) return true;   // caller keeps histories short; never judge what cannot be searched
    Search<Op, Model> s(h);
    bool r = s.go(0, init);
    if (nodes) *nodes = s.nodes;
    return r;
}

} // namespace lin
