// dsched -- a schedule-owning cooperative scheduler for real PaRSEC code.
//
// N real pthreads run the bodies, but only one is runnable at any time.  PaRSEC's
// atomic primitives call parsec_verif_yield_fn (hook H1) and its plain-load wait
// loops call parsec_verif_spin_fn (hook H2); at each of these points the running
// thread asks a Chooser which runnable thread continues.  The interleaving is
// therefore a *generated value* (bytes), shrinkable and replayable, or can be
// enumerated completely (DfsChooser) for tiny programs.
//
// Determinism: given (bodies, choices) the execution is a pure function of the
// code: one runnable thread, no clocks.  Memory model: sequential consistency at
// atomic-operation granularity (plain accesses between two hooks are atomic).
//
// Progress accounting (no wall clock):
//  * a thread inside a spin hook is "blocked" until some other thread makes
//    progress (passes a yield point after doing work, or finishes);
//  * all unfinished threads blocked  => Outcome.deadlock;
//  * more than step_bound hook points => Outcome.step_bound (bounded-liveness).
#pragma once
#include <pthread.h>
#include <sched.h>
#include <unistd.h>
#include <cstdint>
#include <cstdio>
#include <cstdlib>
#include <functional>
#include <vector>

extern "C" {
extern void (*parsec_verif_yield_fn)(int kind, volatile void *addr);
extern void (*parsec_verif_spin_fn)(void);
}

namespace dsched {

struct Chooser {
    // n >= 2 alternatives; alternative 0 = keep running the current thread when
    // current_runnable, otherwise alternatives are the runnable threads in id order.
    virtual int choose(int n, bool current_runnable, int kind, volatile void *addr) = 0;
    virtual ~Chooser() {}
};

// Choices from a byte string.  sparse == 0: every byte picks uniformly (b % n).
// sparse > 0: byte < sparse keeps the current thread (few preemptions), others pick (b - sparse) % (n-1) + 1.
// sparse < 0: each byte is the alternative index itself.
// After the bytes are exhausted: keep running the current thread; when it blocks, round-robin (fair tail).
struct ByteChooser : Chooser {
    const uint8_t *b; size_t n, pos = 0; int sparse;
    ByteChooser(const uint8_t *bytes, size_t len, int sparse_ = 0) : b(bytes), n(len), sparse(sparse_) {}
    int choose(int k, bool cur, int, volatile void *) override {
        if (pos >= n) return 0;
        uint8_t v = b[pos++];
        if (sparse < 0) return v < k ? v : 0;     // bytes are the recorded choice indices (replay of a DFS execution)
        if (!cur) return v % k;
        if (sparse == 0) return v % k;
        if (v < sparse) return 0;
        return 1 + (v - sparse) % (k - 1);
    }
};

// Depth-first enumeration of all choice sequences (stateless exploration by re-execution).
// Usage: DfsChooser d(max_preemptions); do { d.begin(); run(...,d) ; } while (d.next());
struct DfsChooser : Chooser {
    struct Pt { int chosen, n; bool preempt_possible; };
    std::vector<Pt> stack; size_t depth = 0; int max_preempt; int preempts = 0; uint64_t executions = 0;
    bool truncated = false; size_t max_depth;
    explicit DfsChooser(int max_preemptions = 1 << 30, size_t max_depth_ = 4000) : max_preempt(max_preemptions), max_depth(max_depth_) {}
    void begin() { depth = 0; preempts = 0; executions++; }
    int choose(int k, bool cur, int, volatile void *) override {
        if (depth >= max_depth) { truncated = true; return 0; }
        if (cur && preempts >= max_preempt) {   // preemption budget used: no alternatives here
            if (depth < stack.size()) { /* replay prefix: keep recorded (must be 0) */ }
            else stack.push_back({0, 1, false});
            depth++;
            return 0;
        }
        if (depth < stack.size()) {
            int c = stack[depth].chosen; depth++;
            if (cur && c != 0) preempts++;
            return c;
        }
        stack.push_back({0, k, cur});
        depth++;
        return 0;
    }
    // advance to the next unexplored choice sequence; false when the space is exhausted
    bool next() {
        while (!stack.empty()) {
            Pt &p = stack.back();
            if (p.chosen + 1 < p.n) { p.chosen++; return true; }
            stack.pop_back();
        }
        return false;
    }
};

struct Outcome {
    bool deadlock = false;
    bool step_bound = false;
    uint64_t steps = 0;
    uint64_t switches = 0;
    bool ok() const { return !deadlock && !step_bound; }
};

namespace detail {

struct Th {
    std::function<void()> body;
    bool finished = false;
    bool spinning = false; uint64_t spin_seen = 0; bool did_work = true;
};

// Worker threads are created once and reused by every run (thread creation under ASan costs ~ms).
struct Worker { pthread_t tid; pthread_cond_t cv; uint64_t job_gen = 0, done_gen = 0; int id; };

struct State {
    std::vector<Th> th; int current = -1; Chooser *ch = nullptr;
    uint64_t steps = 0, bound = 0, progress = 1, switches = 0;
    bool abort_run = false;
    Outcome out; int nfinished = 0;
};

struct Pool {
    pthread_mutex_t mu = PTHREAD_MUTEX_INITIALIZER;
    pthread_cond_t main_cv = PTHREAD_COND_INITIALIZER;
    std::vector<Worker *> w;
    State *st = nullptr;
};

inline Pool &P() { static Pool *p = new Pool(); return *p; }
inline State *S() { return P().st; }
inline int &tls_id() { static thread_local int id = -1; return id; }

inline bool blocked(State *s, int i) { Th &t = s->th[i]; return t.spinning && t.spin_seen == s->progress; }

// pick the next thread; called with mu held by thread `me` (which may have just finished)
inline int pick(State *s, int me, bool me_runnable, int kind, volatile void *addr) {
    int alt[64]; int n = 0;
    if (me_runnable) alt[n++] = me;
    // the other runnable threads in cyclic order starting after `me`: with an exhausted byte string (choice 0)
    // a thread that cannot continue hands over round-robin, which makes the tail fair (no starvation of a lock
    // holder by two spinners that keep waking each other)
    int nth = (int)s->th.size();
    for (int d = 1; d <= nth && n < 64; d++) {
        int i = ((me < 0 ? -1 : me) + d) % nth;
        if (i != me && !s->th[i].finished && !blocked(s, i)) alt[n++] = i;
    }
    if (n == 0) return -1;
    if (n == 1) return alt[0];
    int c = s->ch->choose(n, me_runnable, kind, addr);
    if (c < 0 || c >= n) c = 0;
    return alt[c];
}

inline void hand_over(State *s, int me, int next) {
    if (next == me) return;
    Pool &p = P();
    s->switches++;
    s->current = next;
    pthread_cond_signal(&p.w[next]->cv);
    while (s->current != me) pthread_cond_wait(&p.w[me]->cv, &p.mu);
}

// Deadlock / step bound: the threads are stuck inside the code under test, the process cannot continue.
// The harness installs on_fatal to record the failing case (vf::record_failure) before the process exits.
inline std::function<void(const char *)> &on_fatal() { static std::function<void(const char *)> *f = new std::function<void(const char *)>(); return *f; }
inline void die(State *s) {
    s->abort_run = true;
    const char *what = s->out.deadlock ? "deadlock: every unfinished thread waits in a spin loop and nobody can make progress"
                                       : "step bound exceeded under the fair tail (bounded-liveness failure)";
    if (on_fatal()) on_fatal()(what);
    fprintf(stderr, "dsched: %s\n", what);
    fflush(nullptr);
    _exit(3);
}

inline void at_point(bool spin, int kind, volatile void *addr) {
    int me = tls_id();
    if (me < 0) return;                         // a thread dsched does not own (runtime workers, comm thread, main)
    Pool &p = P();
    pthread_mutex_lock(&p.mu);
    State *s = p.st;
    if (!s) { pthread_mutex_unlock(&p.mu); return; }
    Th &t = s->th[me];
    s->steps++;
    if (spin) {
        if (t.did_work) { s->progress++; t.did_work = false; }
        t.spinning = true; t.spin_seen = s->progress;
    } else {
        t.spinning = false; t.did_work = true; s->progress++;
    }
    if (s->steps > s->bound) { s->out.step_bound = true; die(s); }
    int next;
    if (spin) {
        // a spinning thread cannot change anything: somebody else must run
        next = pick(s, me, false, kind, addr);
        if (next < 0) { s->out.deadlock = true; die(s); }
    } else {
        next = pick(s, me, true, kind, addr);
    }
    hand_over(s, me, next);
    pthread_mutex_unlock(&p.mu);
}

inline void on_yield(int kind, volatile void *addr) { at_point(false, kind, addr); }
inline void on_spin() { at_point(true, -1, nullptr); }

inline void *worker_main(void *arg) {
    Worker *w = (Worker *)arg; Pool &p = P();
    pthread_mutex_lock(&p.mu);
    for (;;) {
        while (w->job_gen == w->done_gen) pthread_cond_wait(&w->cv, &p.mu);
        State *s = p.st; int me = w->id;
        // wait for the baton
        while (s->current != me) pthread_cond_wait(&w->cv, &p.mu);
        tls_id() = me;
        pthread_mutex_unlock(&p.mu);
        s->th[me].body();
        pthread_mutex_lock(&p.mu);
        tls_id() = -1;
        s->th[me].finished = true; s->progress++; s->nfinished++;
        w->done_gen = w->job_gen;
        int next = pick(s, me, false, -2, nullptr);
        if (next < 0) {
            if (s->nfinished != (int)s->th.size()) { s->out.deadlock = true; die(s); }
            s->current = -1;
        } else { s->current = next; s->switches++; pthread_cond_signal(&p.w[next]->cv); }
        pthread_cond_signal(&p.main_cv);
    }
    return nullptr;
}

} // namespace detail

inline std::function<void(const char *)> &on_fatal() { return detail::on_fatal(); }
inline int self() { return detail::tls_id(); }
inline uint64_t now() { detail::State *s = detail::S(); return s ? s->steps : 0; }
// explicit yield point for harness code ("work" inside a critical section, between two API calls)
inline void yield_point() { detail::at_point(false, 99, nullptr); }
// explicit spin notification for harness-level wait loops
inline void spin_point() { detail::at_point(true, -1, nullptr); }

// Run the bodies under the chooser.  Returns when all bodies returned.
inline Outcome run(const std::vector<std::function<void()>> &bodies, Chooser &ch, uint64_t step_bound = 200000) {
    using namespace detail;
    Pool &p = P();
    State st; st.ch = &ch; st.bound = step_bound;
    st.th.resize(bodies.size());
    for (size_t i = 0; i < bodies.size(); i++) st.th[i].body = bodies[i];
    if (bodies.empty()) return st.out;
    parsec_verif_yield_fn = on_yield; parsec_verif_spin_fn = on_spin;
    pthread_mutex_lock(&p.mu);
    while (p.w.size() < bodies.size()) {
        Worker *w = new Worker(); w->id = (int)p.w.size(); pthread_cond_init(&w->cv, nullptr);
        pthread_attr_t at; pthread_attr_init(&at); pthread_attr_setstacksize(&at, 2 << 20);
        pthread_create(&w->tid, &at, worker_main, w); pthread_attr_destroy(&at);
        p.w.push_back(w);
    }
    p.st = &st;
    int first = 0;
    if (bodies.size() > 1) { first = ch.choose((int)bodies.size(), false, -3, nullptr); if (first < 0 || first >= (int)bodies.size()) first = 0; }
    st.current = first;
    for (size_t i = 0; i < bodies.size(); i++) { p.w[i]->job_gen++; pthread_cond_signal(&p.w[i]->cv); }
    while (st.nfinished != (int)bodies.size()) pthread_cond_wait(&p.main_cv, &p.mu);
    p.st = nullptr;
    pthread_mutex_unlock(&p.mu);
    parsec_verif_yield_fn = nullptr; parsec_verif_spin_fn = nullptr;
    st.out.steps = st.steps; st.out.switches = st.switches;
    return st.out;
}

} // namespace dsched
