// Shared support for all C++ harnesses of the verification framework:
// case counters, non-triviality fingerprints, labels, samples, failure files.
// A harness reports through $VF_OUT (JSON) and $VF_OUT.fail (last failing case,
// which after shrinking is the minimal one) -- the Python driver merges them.
#pragma once
#include <cstdint>
#include <cstdio>
#include <cstdlib>
#include <cstring>
#include <map>
#include <string>
#include <unordered_set>
#include <vector>
#include <sstream>
#include <fstream>

namespace vf {

inline uint64_t fnv1a(const std::string &s) {
    uint64_t h = 1469598103934665603ULL;
    for (unsigned char c : s) { h ^= c; h *= 1099511628211ULL; }
    return h;
}

struct Report {
    uint64_t evaluations = 0;
    std::unordered_set<uint64_t> nontrivial;
    std::map<std::string, uint64_t> labels;
    std::vector<std::string> samples;
    std::map<std::string, std::string> extra;   // raw JSON values
    uint64_t nontrivial_cap = 4000000;          // memory guard; beyond: counted conservatively (not added)
    size_t max_samples = 6;
    bool in_shrink = false;
};

inline Report &R() { static Report *r = new Report(); return *r; }   // never destroyed: dump() may run from atexit

inline std::string jesc(const std::string &s) {
    std::string o;
    for (unsigned char c : s) {
        switch (c) {
        case '"': o += "\\\""; break;
        case '\\': o += "\\\\"; break;
        case '\n': o += "\\n"; break;
        case '\t': o += "\\t"; break;
        case '\r': o += "\\r"; break;
        default:
            if (c < 0x20 || c >= 0x7f) { char b[8]; snprintf(b, sizeof b, "\\u%04x", c); o += b; }
            else o += (char)c;
        }
    }
    return o;
}

inline void label(const std::string &l, uint64_t n = 1) { R().labels[l] += n; }

// Count one executed case.  repr: canonical text of the generated value.
inline void note_case(const std::string &repr, bool nontrivial) {
    Report &r = R();
    r.evaluations++;
    if (nontrivial) {
        if (r.nontrivial.size() < r.nontrivial_cap) r.nontrivial.insert(fnv1a(repr));
        // sample spread: keep the first few non-trivial, then reservoir-ish replacement by hash
        if (r.samples.size() < r.max_samples) r.samples.push_back(repr.substr(0, 1500));
        else if ((fnv1a(repr) % 4096) == 0) r.samples[fnv1a(repr + "x") % r.max_samples] = repr.substr(0, 1500);
    }
}

inline const char *outpath() { const char *p = getenv("VF_OUT"); return p ? p : nullptr; }

// Record a failing case (overwrites: the last failure written is the shrunk one).
inline void record_failure(const std::string &repr, const std::string &msg) {
    label("failures_seen");
    const char *p = outpath();
    if (!p) { fprintf(stderr, "FAILURE: %s\ncase:\n%s\n", msg.c_str(), repr.c_str()); return; }
    std::string f = std::string(p) + ".fail";
    std::ofstream o(f, std::ios::trunc);
    o << repr;
    if (repr.empty() || repr.back() != '\n') o << "\n";
    o.close();
    std::ofstream m(std::string(p) + ".failmsg", std::ios::trunc);
    m << msg << "\n";
}

inline void dump() {
    const char *p = outpath();
    Report &r = R();
    std::ostringstream o;
    o << "{\"evaluations\": " << r.evaluations << ", \"distinct_nontrivial\": " << r.nontrivial.size()
      << ", \"labels\": {";
    bool first = true;
    for (auto &kv : r.labels) { o << (first ? "" : ", ") << "\"" << jesc(kv.first) << "\": " << kv.second; first = false; }
    o << "}, \"samples\": [";
    first = true;
    for (auto &s : r.samples) { o << (first ? "" : ", ") << "\"" << jesc(s) << "\""; first = false; }
    o << "], \"extra\": {";
    first = true;
    for (auto &kv : r.extra) { o << (first ? "" : ", ") << "\"" << jesc(kv.first) << "\": " << kv.second; first = false; }
    o << "}}\n";
    if (p) {
        std::ofstream f(p, std::ios::trunc); f << o.str(); f.close();
        // fingerprints, for a cross-worker distinct count
        std::ofstream h(std::string(p) + ".hashes", std::ios::binary | std::ios::trunc);
        for (uint64_t v : r.nontrivial) h.write((const char *)&v, sizeof v);
    } else {
        fputs(o.str().c_str(), stdout);
    }
}

inline std::string slurp(const char *path) {
    std::ifstream f(path, std::ios::binary);
    std::ostringstream ss; ss << f.rdbuf(); return ss.str();
}

inline long envl(const char *name, long dflt) {
    const char *v = getenv(name); return (v && *v) ? atol(v) : dflt;
}

// Integer-sequence cases: the common replay format is whitespace separated ints,
// lines starting with '#' are comments.
inline std::vector<long> parse_ints(const std::string &s) {
    std::vector<long> v; std::istringstream in(s); std::string line;
    while (std::getline(in, line)) {
        if (!line.empty() && line[0] == '#') continue;
        std::istringstream ls(line); long x; while (ls >> x) v.push_back(x);
    }
    return v;
}

} // namespace vf
