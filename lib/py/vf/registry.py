"""Per-property registration data: what MANIFEST.json says about each check.

A property is claimed iff it has an entry in CLAIMED *and* harness/<id>/check.py exists.
Everything else is listed under not_applicable with a reason.
"""

NOTE_COMMON = ("Trusted base: the harness and its reference model under /verif/harness/<id>, rapidcheck / libFuzzer / "
               "Hypothesis, sanitizer runtimes, Open MPI, hwloc. Search, not proof: absence of a violation is only "
               "established for the cases listed in the evidence file (sub-spaces marked exhaustive are enumerated completely).")

CLAIMED = {
    "C36": dict(
        engine="rc+fuzz",
        technique="model-based property testing (rapidcheck) + exhaustive small-scope enumeration + libFuzzer with the same std::set oracle",
        text="Generated insert/remove/update_node/find sequences are executed against the real red-black tree and a std::set model; "
             "BST order, red-black invariants, parent links, foreach order and lookup/lookup-or-larger results are compared after every "
             "operation. All effective sequences over 4 keys up to length 6 are enumerated (quick), random sequences up to 250 ops over "
             "five key ranges incl. INT extremes are sampled, and libFuzzer drives the same oracle under ASan/UBSan.",
        design_ref="5/C36"),
    "C30": dict(
        engine="dsched+rc",
        technique="schedule-owning concurrency testing (dsched) with rapidcheck-generated programs and schedules, exhaustive schedule DFS for tiny programs, Wing&Gong linearizability oracle, stress conservation oracle",
        text="Real LIFO code runs on real threads with one runnable at a time; the interleaving at atomic-operation granularity is a generated, "
             "shrinkable value. Every program of 2 threads x 2 operations is run under every schedule (exhaustive); larger programs with item "
             "recycling (what ABA needs) are sampled. Oracle: the recorded history including a final drain is linearizable as a stack and "
             "every item ends in exactly one place; a 2..16-thread free-running stress part covers real parallelism.",
        design_ref="5/C30"),
    "C01": dict(
        engine="ptg(E5)+hypothesis",
        technique="grammar/template-based generation of valid PTG programs (Hypothesis) with an independent reference interpreter; exactly-once multiset oracle; watchdog-decided hangs",
        text="Abstract PTG programs are built by construction from edge templates over 1-D/2-D parameter spaces (positive/negative/inline-C "
             "steps, dependent ranges, local-index parameters, guards, CTL gathers, RW/READ/WRITE flows), emitted as JDF, compiled with the tree's "
             "parsec-ptgpp for both dependency back-ends and run under all 11 schedulers, 1..16 threads and startup-chunking parameters. Oracle: the "
             "multiset of (class, parameters) logged by the bodies equals the reference interpreter's enumeration; a missing instance with an idle "
             "runtime is a violation, a plain timeout is not.",
        design_ref="5/C01"),
    "C02": dict(
        engine="ptg(E5)+hypothesis",
        technique="generated PTG programs vs reference interpreter: predecessor-order stamps, per-flow input values, final collection contents",
        text="Same generator as C01 biased to data edges (ternary routing, fan-out, RW chains). Every body logs global sequence stamps and the value "
             "of each input tile; oracle: each instance starts after all predecessors named by the reference completed, every input flow holds the "
             "value the reference computes (producer's H(...) or collection element), and the output collection E equals the reference's sequential result.",
        design_ref="5/C02"),
    "C16": dict(
        engine="ptg(E5)+hypothesis",
        technique="generated PTG programs whose bodies return HOOK_RETURN_AGAIN a generated number of times; invocation-count and ordering oracle; startup chunk sweeps",
        text="Bodies ask to be re-run r(class, index) in 0..3 times before completing; oracle: exactly r deferred invocations then one completing one, "
             "successors start after the completing invocation, each instance completes once; task_startup_iter/chunk are swept so startup "
             "enumeration is suspended and resumed at every position.",
        design_ref="5/C16"),
    "C24": dict(
        engine="hypothesis+subprocess(E9)",
        technique="grammar-based generation of valid JDF (engine E5) plus token-level mutation, limit-exceeding construction and byte noise; accept/reject oracle with compile check and determinism check",
        text="Valid, mutated, over-limit and noisy JDF texts are compiled twice with the tree's parsec-ptgpp (gcc build, and the ASan/UBSan build "
             "on a quarter of the cases). Oracle: exit 0 implies byte-identical outputs and C that passes cc -fsyntax-only; exit != 0 implies "
             "normal termination with a diagnostic; valid programs must be accepted, programs over MAX_PARAM/DEP_IN/DEP_OUT/LOCAL_COUNT "
             "must be rejected; signals and memory errors are violations.",
        design_ref="5/C24"),
    "C33": dict(
        engine="dsched+rc",
        technique="schedule-owning concurrency testing (dsched) of the ticket rwlock with an occupancy oracle; exhaustive schedule DFS for tiny programs; deterministic bounded-progress check; stress",
        text="Threads run generated lock/unlock cycles with harness yield points inside the critical sections; the interleaving is generated. "
             "Oracle: a writer is never inside with another writer or a reader (harness occupancy counters), readers do overlap (counted), and "
             "under the fair tail nobody deadlocks or exceeds the step bound. 2 threads x 1 cycle under all schedules, 2x2 / 3x1 cycles with "
             "bounded preemptions enumerated; larger cases sampled; 2..16-thread stress.",
        design_ref="5/C33"),
    "C34": dict(
        engine="dsched+rc",
        technique="schedule-owning concurrency testing of PARSEC_OBJ retain/release against a sequential refcount model; exhaustive DFS for tiny programs; stress",
        text="Class hierarchies of depth 1..4 with logging constructors/destructors; threads retain/release references they hold with hand-offs. "
             "Oracle: constructors base-to-derived once, destructors derived-to-base exactly once and exactly at the step where the model count "
             "reaches zero. All schedules of 2 threads x 2 ops and 3 threads x 1 op plus the lazy class-initialisation race are enumerated.",
        design_ref="5/C34"),
    "C29": dict(
        engine="dsched+rc",
        technique="schedule-owning concurrency testing of base/countable/datacopy futures with once-only and single-value oracles; exhaustive DFS for tiny programs; stress",
        text="Base futures (racing setters, getters), countable futures (count 1..6) and datacopy futures (same/different shapes, sync and deferred "
             "fulfilment, nested requests) are driven from 2..4 threads under generated schedules. Oracle: one set wins and every getter sees "
             "it; ready exactly after `count` sets; fulfilment at most once per shape with one pointer per shape; every completion/cleanup "
             "callback exactly once.",
        design_ref="5/C29"),
    "C07": dict(
        engine="dsched+rc",
        technique="direct drive of parsec_update_deps_with_mask/_with_counter on harness-built task classes under generated schedules; exhaustive for N<=3 releases; stress",
        text="A harness task class (flags and goal computed as jdf2c does; flows from tasks, from collections, control gathers, write-only) and "
             "one dependency word; N releases split over threads in a generated order and interleaving. Oracle: exactly one call reports "
             "ready iff all N releases were issued, and it is the last to commit; fewer than N never report ready. Both tracking modes.",
        design_ref="5/C07"),
    "C12": dict(
        engine="sim(E8)+rc",
        technique="single-process simulation of n ranks around the real user_trigger module (send_am replaced by harness FIFO channels); exhaustive over (n<=64, root) + rapidcheck to n=4096",
        text="Every (n <= 64, root) pair is run twice (all ranks ready / non-root ranks late, exercising the delayed-message path) and larger n up to "
             "4096 with generated late sets, pending actions and delivery orders are sampled. Oracle: every rank's termination callback runs exactly "
             "once, every non-root rank receives exactly one message, the root none, and the (sender, receiver) pairs form a spanning tree.",
        design_ref="5/C12"),
    "C13": dict(
        engine="sim(E8)+rc+H4",
        technique="simulation of np ranks around the real parsec_remote_dep_activate/propagate with hook H4 capturing sends; exhaustive over destination-set families for np<=5 x 3 topologies + rapidcheck",
        text="The real activation/propagation code runs for a harness task with 1..3 outputs and generated destination sets; every captured send is "
             "delivered by running the real propagation on the peer in a generated order. Oracle: each destination of each output receives that "
             "output exactly once from a process that holds it, nobody else receives anything, nobody is activated twice. All roots x all families "
             "of destination sets for np <= 5 on star/chain/binomial are enumerated; np <= 6 (thorough 8) sampled.",
        design_ref="5/C13"),
    "C11": dict(
        engine="sim(E8)+rc+H5",
        technique="simulation of P ranks around the real four-counter module with generated event/delivery histories; safety oracle at every termination callback, liveness at the drained fixpoint; call grammar validated against real MPI traces (hook H5)",
        text="P in 1..5 (thorough 9) simulated ranks drive the real fourcounter termdet through the call protocol read from remote_dep_mpi.c "
             "(ready, work +/-, application message start/deliver brackets, wave messages on FIFO channels in generated order). Safety: inside "
             "every termination callback all ranks are idle and sent == received on every channel; liveness: after all work is completed and "
             "channels drained every rank has had exactly one callback. Real dynamic-termdet runs on 2-3 MPI ranks validate the simulator's call grammar.",
        design_ref="5/C11"),
    "C26": dict(
        engine="rc+exhaustive",
        technique="model-based property testing of parsec_data_start/end_transfer_ownership_to_copy against a version model; exhaustive short histories + rapidcheck",
        text="Access histories (device, R/W/RW) over 2..3 device copies are executed the way the device layer does (start_transfer, copy, "
             "end_transfer, version bump) and compared with a model of the newest version. Oracle after every call: at most one OWNED copy and "
             "owner_device names it, a transfer is requested iff the target is stale, the named source holds the newest version, a write makes "
             "the target the owner. Every history of length <= 6 over 2 copies and <= 4 over 3 copies from 3 initial configurations is enumerated.",
        design_ref="5/C26"),
    "C27": dict(
        engine="rc+dsched+stress",
        technique="model-based sequences (rapidcheck) + schedule-owned concurrency (dsched) + stress on arenas and thread mempools with ownership tags under ASan",
        text="Arenas with generated element sizes, alignments and used/cached limits and thread mempools are driven sequentially against an exact "
             "model and concurrently under generated schedules. Oracle: every live block is aligned, large enough, tagged over its whole size and "
             "never overlaps or is handed out twice; allocation is refused iff the limit is reached; the cache never exceeds its limit; mempool "
             "elements return to their owner pool.",
        design_ref="5/C27"),
    "C28": dict(
        engine="rc+fuzz+exhaustive",
        technique="model-based property testing of the zone allocator against a unit-array model (rapidcheck, exhaustive small zones, libFuzzer with the same oracle)",
        text="malloc/free sequences on zones of 1..512 units (unit sizes 1/8/512, byte sizes not multiple of the unit). Oracle: returned address "
             "inside the zone, unit-aligned, large enough, disjoint from live blocks; NULL iff the model has no free run of enough units (so "
             "missing merges show); in-use count equals the live sum; payload tags intact. All effective sequences up to length 6 on zones of "
             "<= 7 units (<= 4 on <= 16 units) are enumerated.",
        design_ref="5/C28"),
    "C31": dict(
        engine="rc+exhaustive+dsched+stress",
        technique="model-based sequences vs a vector model (forward and backward links), exhaustive small sorted inputs, schedule-owned linearizability for locked variants, stress conservation",
        text="list/dequeue/fifo/ring operations including push_sorted, chain_sorted, sort and ring sorted insertion are compared with a vector "
             "model after every step (prev links too): exact stable positions for sorted insertion, permutation + monotone order for sort. Locked "
             "variants run under generated schedules with a deque linearizability oracle; every program of 2 threads x 2 ops with <= 2 preemptions "
             "and all small sorted inputs are enumerated.",
        design_ref="5/C31"),
    "C32": dict(
        engine="dsched+rc+stress",
        technique="schedule-owned concurrency testing of the hash table with per-key Wing&Gong linearizability across forced resizes; bounded-exhaustive schedules; 16-thread stress",
        text="Tables with tiny initial size and collision hints (resize every few inserts), engineered collisions, insert/find/remove and the "
             "lock_bucket+nolock_find+nolock_insert idiom from 2..3 threads under generated schedules. Oracle: each key's history is linearizable "
             "as a register-like map entry, including hits on items still living in old tables; quiescent for_all visits each item once. 512 "
             "two-thread programs x all schedules with <= 1 preemption are enumerated.",
        design_ref="5/C32"),
    "C35": dict(
        engine="rc+exhaustive+dsched+stress",
        technique="model-based sequences on hbbuffers (two levels + parent store) and max-heaps with multiset conservation and heap-shape oracles; tiny scopes exhaustive; dsched/stress for loss/duplication",
        text="push_all / push_all_by_priority / pop_best on hierarchical buffers with overflow into a checking parent store, and "
             "heap_insert / heap_remove / heap_split_and_steal on heap forests. Oracle: everything pushed is in exactly one place, quiescent "
             "pop_best returns a maximal element, heaps keep heap order, size and top priority after every operation and return every task once "
             "across splits.",
        design_ref="5/C35"),
    "C39": dict(
        engine="rc+fuzz",
        technique="round-trip and vector-model property testing of argv utilities and an option-table model of cmd_line (rapidcheck + libFuzzer, ASan)",
        text="split/join round trips over strings with delimiter runs and fields longer than the internal buffer, insert/delete/append/prepend "
             "against a std::vector model (positions inside, at and beyond the end), and generated option tables + command lines (combined "
             "shorts, parameters, '--' tail, unknown tokens) against an option model. Where the header is silent both readings are accepted and labelled.",
        design_ref="5/C39"),
    "C14": dict(
        engine="mpi(E7)+hypothesis",
        technique="Hypothesis-generated communication plans (send_am / put / get / progress, request-window settings) executed by a driver that is the only user of parsec_ce on 2..4 MPI ranks; exact delivery multiset and byte comparison oracle; watchdog-decided hangs",
        text="Each rank initialises PaRSEC without starting the context and drives the communication engine directly with a generated plan and "
             "generated MCA request-window sizes (from 1 upward so queues overflow). Oracle: every active message is delivered exactly once to "
             "the right tag with identical bytes; every put/get moves exactly the requested bytes, guard bytes stay intact, completion "
             "callbacks fire once. A hang is a violation only if the watchdog fires in 3 solo replays.",
        design_ref="5/C14"),
    "C21": dict(
        engine="mpi(E7)+hypothesis",
        technique="Hypothesis-generated redistribution cases (sizes, tile sizes, window, displacements, 2DBC/SBC, 1..4 ranks) checked element-wise against the definition of the window copy",
        text="Source is filled with f(i,j) and target with a sentinel g(i,j); after parsec_redistribute every rank checks each local target element: "
             "inside the window it equals the displaced source element, outside it is unchanged (padding included). Both the reshuffle fast path "
             "and the general path, partial edge tiles and different source/target distributions are covered.",
        design_ref="5/C21"),
    "C22": dict(
        engine="mpi(E7)+hypothesis",
        technique="Hypothesis-generated matrix shapes / uplo / distributions; per-tile invocation counters for parsec_apply and (src,dst) visit + int64 fold oracle for the map operator",
        text="parsec_apply over full/upper/lower regions must invoke the operator exactly once per tile of the region and never elsewhere; the map "
             "operator must visit every (source, destination) tile pair once and its int64 sum/xor/max fold must equal the sequential fold. "
             "The reductions (reduce.jdf, reduce_row/col) are exercised by replays only: they fail on the unchanged tree (known findings C22-F2/F3).",
        design_ref="5/C22"),
    "C08": dict(
        engine="dsched+rc+stress",
        technique="schedule-owned property testing of all 11 scheduler modules on the real execution streams of a never-started context; bounded-preemption DFS; 8..16-stream stress; exactly-once oracle",
        text="For each module, harness threads impersonate the execution streams (and the communication thread) and run generated "
             "schedule / select / reschedule programs with rings of 1..64 tasks, distances 0..3 and pre-filled bounded buffers, under generated "
             "interleavings. Oracle: every scheduled task is returned exactly once by a stream of the same VP and nothing is left after the "
             "drain. The 2-stream / one-op / <= 2-preemption space is enumerated; a free-running stress part adds real parallelism. Single VP.",
        design_ref="5/C08"),
    "C09": dict(
        engine="rc+exhaustive",
        technique="model-based stateful property testing of the ap / ip / spq scheduler modules against priority-queue models; exhaustive short sequences",
        text="One stream, no concurrency: schedule(ring, distance)/select() sequences with priorities -5..5 plus INT_MIN/INT_MAX and rings of 1..16. "
             "Models: ap = stable max-queue, spq = lexicographic (distance, priority, arrival) with the reported distance, ip = minimum priority "
             "first (ties unspecified, distance 0 only). All sequences of <= 5 operations (spq <= 4) over a small alphabet are enumerated.",
        design_ref="5/C09"),
    "C10": dict(
        engine="dsched+rc",
        technique="schedule-owned protocol histories on the real local termination detector; exhaustive DFS for 2 workers; deterministic bounded-liveness",
        text="A real taskpool monitored by the local termdet module; worker threads perform balanced addto_nb_tasks / addto_runtime_actions / "
             "set_nb_tasks sequences while the main thread calls taskpool_ready at a generated point. Oracle: the callback runs at most once, only "
             "after ready with both counters zero; state is never TERMINATED while a hold is out; after everything is released termination is "
             "reported (no dsched deadlock / step bound). 540 program pairs x all schedules with <= 2 preemptions enumerated.",
        design_ref="5/C10"),
    "C25": dict(
        engine="dsched+rc+H3",
        technique="schedule-owned concurrency testing of the data repository against an exact-reclamation model, reclaim events observed through hook H3; per-key linearizability; exhaustive tiny space; stress",
        text="1..3 creators per key interleave lookup_entry_and_create / addto_usage_limit with the users' entry_used_once under generated schedules. "
             "Oracle: an entry is findable iff a creator has not announced its limit or fewer uses than announced happened; each entry is "
             "reclaimed exactly once, at the step the model says, never earlier; lookups agree with the model under linearization.",
        design_ref="5/C25"),
    "C37": dict(
        engine="rc+dsched+mpi",
        technique="stateful model-based testing of the taskpool registry (map id -> taskpool), concurrent reservation under dsched, and Hypothesis-generated multi-rank sync_ids cases",
        text="reserve / register / lookup / unregister sequences are compared with a map model (forked cases from a pristine registry and one "
             "long persistent history); ids reserved concurrently are distinct; on 2..4 MPI ranks each rank reserves a different generated number "
             "of ids, then after parsec_taskpool_sync_ids the next id is identical on all ranks and above every id handed out before.",
        design_ref="5/C37"),
    "C41": dict(
        engine="rc+dsched",
        technique="stateful model-based testing of info registries and object arrays (map model) + schedule-owned per-slot linearizability under array growth",
        text="register / unregister / lookup / set / get / test_and_set sequences on 1..3 object arrays attached at different times, with tagged "
             "pointer values whose low bytes are non-zero. Oracle: live names have distinct ids, lookups return them, each slot returns the "
             "last value set or the constructed default, test_and_set replaces only on a match, and no operation (in particular growth) "
             "changes another slot. Concurrent set/get/test_and_set during registrations are linearizable per slot.",
        design_ref="5/C41"),
    "C42": dict(
        engine="rc+subprocess(E9)",
        technique="round-trip property testing of the profiling trace writer against the real dbpreader, one process per trace (PROF_TRACE build)",
        text="Generated dictionaries (names, attributes, convertors, info lengths), global and per-stream infos, 1..3 ranks x 1..8 concurrent "
             "streams x up to 3000 events (flags, 64-bit ids, payloads 0..200 B, 1..8-page buffers) are written through the standalone profiling "
             "API and read back with tools/profiling/dbpreader.c. Oracle: dictionary, infos, per-stream event sequence and payload bytes are "
             "equal, timestamps are monotone per stream.",
        design_ref="5/C42"),
    "C15": dict(
        engine="hypothesis+driver(E5 support)",
        technique="Hypothesis-generated compositions (binary trees of parsec_compose over 1..20 pools incl. empty ones) run by a driver; global-stamp interval oracle",
        text="Pools of 0..40 independent or chained tasks are composed in generated association orders and run under generated thread counts and "
             "schedulers. Oracle: every task runs once, the stamp intervals of consecutive non-empty pools are disjoint and ordered, the "
             "compound's completion callback runs exactly once after the last task and before parsec_context_wait returns.",
        design_ref="5/C15"),
    "C05": dict(
        engine="ptg(E5)+mpi(E7)+hypothesis",
        technique="generated PTG programs run on 2..4 MPI ranks with generated placement tables, broadcast topologies and short limits, judged by the reference interpreter",
        text="The C01/C02 generator with remote edges: every instance runs on 2..4 ranks with a generated placement table (task and data "
             "ownership derived from it), runtime_comm_coll_bcast in {star, chain, binomial}, short limits and tile sizes on both sides of the "
             "limit. Oracle: every rank terminates (watchdog otherwise), each instance runs once on the rank the placement names, every input "
             "value and the final collection contents equal the reference, which does not depend on P or the message path.",
        design_ref="5/C05"),
    "C19": dict(
        engine="rc+exhaustive",
        technique="exhaustive enumeration of (m, n, ld, uplo, diag, resized) plus rapidcheck, with an MPI_Pack oracle on an index-valued buffer",
        text="Every datatype parsec_matrix_define_datatype builds for m,n <= 12, ld <= m+3, full/upper/lower, with and without diagonal, both "
             "resize modes and two element types (13,824 cases, enumerated) plus random cases up to 200 is packed from a buffer holding its own "
             "linear indices. Oracle: the packed index list equals the mathematical region in column-major order; lb, extent and true extent "
             "cover the tile; unpacking writes only the region.",
        design_ref="5/C19"),
    "C20": dict(
        engine="rc+exhaustive",
        technique="all-rank-view model check of the data distributions (2D block-cyclic with k-cyclicity and offsets, k-view, symmetric, band, tabular, vector): rapidcheck over parameters plus complete small boxes",
        text="Each descriptor is constructed once per rank of grids up to 16 ranks. Oracle for every tile of the (sub)matrix: rank_of is identical "
             "in every rank's view and valid; on the owner data_of returns distinct parsec_data_t whose memory lies inside the rank's storage and "
             "does not overlap; local tile count is within nb_local_tiles; data_key / rank_of_key / data_of_key / key_to_string round-trip; "
             "vpid_of is in range (nb_vp 1..6).",
        design_ref="5/C20"),
    "C38": dict(
        engine="hypothesis+subprocess(E9)",
        technique="precedence-model test of MCA parameter resolution: one process per Hypothesis-generated combination of default / override / --mca / environment / synonyms / parameter files",
        text="A C driver registers generated parameters (int, size_t, string; synonyms, deprecated or not), applies generated overrides, command "
             "lines, environment variables and parameter files with distinct values per source, and prints effective values and sources. Oracle: "
             "override > (--mca | environment) > file > default; when --mca and environment are both present either is accepted (labelled); "
             "repeated --mca values are joined with commas; ~/ expansion for strings.",
        design_ref="5/C38"),
    "C40": dict(
        engine="hypothesis+subprocess(E9)+fuzz",
        technique="model-based subprocess test of virtual-process maps under random taskset masks (flat, hwloc, rr, file, display, malformed) plus in-process libFuzzer on the map parsers",
        text="Each case runs parsec_init with a generated runtime_vpmap specification (valid ones built from a model, malformed ones by mutation) "
             "under a generated CPU mask and prints VP count, threads per VP, recorded and OS-level bindings. Oracle: counts equal the model, "
             "every thread's affinity lies inside the process's allowed set, malformed specifications fall back or stop with a diagnostic; "
             "signals and sanitizer reports are violations.",
        design_ref="5/C40"),
    "C03": dict(
        engine="dtd(E6)+hypothesis",
        technique="Hypothesis-generated DTD insertion scripts executed by a C script interpreter (batched), compared task by task with a sequential reference interpreter; in-process watchdog; solitary replays",
        text="Scripts of up to 60 insertions over 1..8 tiles (read / write / read-write, priorities, flush, wait, several pools and epochs, "
             "task-inserting tasks, window x threshold, 7 schedulers x 1..16 threads, 1..2 ranks with affinity placement). Oracle: every task "
             "runs exactly once, observes exactly the input values the sequential execution in insertion order gives it, and flushed tiles "
             "hold the sequential result on their owner. Seven defect classes found on the unchanged tree are excluded by construction and replayed.",
        design_ref="5/C03"),
    "C04": dict(
        engine="dtd(E6)+hypothesis",
        technique="generated reader-heavy DTD scripts with spinning bodies on 4..16 threads; per-tile occupancy counters and sequence-stamp oracle; measured reader overlap",
        text="Bodies keep per-tile reader/writer occupancy counters and spin a generated time to widen overlap windows. Oracle: a writer observes "
             "no other reader or writer during its whole body, a reader observes no writer, and a writer starts after every reader inserted "
             "before it on that tile completed; the evidence counts how many scripts showed two readers of one tile really overlapping.",
        design_ref="5/C04"),
    "C17": dict(
        engine="dtd(E6)+mpi(E7)+hypothesis",
        technique="generated two-rank DTD scripts with random affinity ending in flush / flush_all + wait; owner-copy oracle against the sequential reference",
        text="The last writer of a tile is usually not its owner. Oracle: after parsec_dtd_data_flush / flush_all and the wait, the owning "
             "process's copy of each flushed tile holds the value written by the last writing task in insertion order.",
        design_ref="5/C17"),
    "C06": dict(
        engine="hypothesis+driver",
        technique="Hypothesis-generated start/add/wait/test histories over 1..5 epochs with PTG and DTD pools, pools added from task bodies and completion callbacks; global-stamp oracle",
        text="A driver executes generated histories on one context. Oracle from global sequence stamps: parsec_context_wait returns only after "
             "every task of every pool added in the epoch (transitively) completed and no body starts before the next start/add; "
             "parsec_taskpool_wait returns after that pool's completion callback; every callback runs exactly once after the pool's last task; "
             "later epochs behave like the first.",
        design_ref="5/C06"),
    "C18": dict(
        engine="hypothesis+per-structure JDF build+mpi(E7)",
        technique="Hypothesis-generated reshape programs (JDF templates instantiated per structure, compiled with the tree's parsec-ptgpp) on 1..4 ranks; Python reference model of pack/unpack per edge; all-ranks quiescence watchdog",
        text="One producer writes m x n int tiles (m,n 2..6, ld m..m+2); 1..4 READ/RW consumers take the flow with [type] / [type_remote] in "
             "{DEFAULT, FULL, UPPER, LOWER} on the output side, input side or both, on generated placements (local and remote edges, short limits, "
             "broadcast topologies, 1..4 threads). Oracle: the selected elements equal the producer's (incl. LOWER<->UPPER repacking); RW markers "
             "never reach the producer's tile or another consumer's copy, re-checked after all consumers and after context_wait. The documented "
             "unsupported case (several remote shapes in short messages) is excluded and counted.",
        design_ref="5/C18"),
    "C23": dict(
        engine="ptg(E5)+hypothesis",
        technique="generated parameter spaces; key distinctness and key_print round-trip oracle on the generated make_key/key_print",
        text="Each body logs make_key() and key_print() of its own task for generated spaces with negative bounds, steps, dependent ranges, "
             "local-index parameters, both back-ends; oracle: distinct instances of a class have distinct keys and the printed key names the class "
             "and exactly the parameter values.",
        design_ref="5/C23"),
}

NOT_APPLICABLE = {
    "C43": "GPU device code (device_gpu.c / transfer_gpu.c) is not compiled in this configuration (no CUDA/HIP/Level-Zero SDK, no "
           "accelerator): there is no executable implementation to generate inputs against; the CPU-side ownership/version part is C26.",
}
