"""Per-property registration data: what MANIFEST.json says about each check.

A property is claimed iff it has an entry in CLAIMED *and* harness/<id>/check.py exists.
Everything else is listed under not_applicable with a reason.
"""

NOTE_COMMON = ("Trusted base: the harness and its reference model under /verif/harness/<id>, rapidcheck / libFuzzer / "
               "Hypothesis, sanitizer runtimes, Open MPI, hwloc. Search, not proof: absence of a violation is only "
               "established for the cases listed in the evidence file (sub-spaces marked exhaustive are enumerated completely).")

CLAIMED = {
    "C36": dict(
        engine="rc+fuzz",
        technique="model-based property testing (rapidcheck) + exhaustive small-scope enumeration + libFuzzer with the same std::set oracle",
        text="Generated insert/remove/update_node/find sequences are executed against the real red-black tree and a std::set model; "
             "BST order, red-black invariants, parent links, foreach order and lookup/lookup-or-larger results are compared after every "
             "operation. All effective sequences over 4 keys up to length 6 are enumerated (quick), random sequences up to 250 ops over "
             "five key ranges incl. INT extremes are sampled, and libFuzzer drives the same oracle under ASan/UBSan.",
        design_ref="5/C36"),
}

NOT_APPLICABLE = {
    "C43": "GPU device code (device_gpu.c / transfer_gpu.c) is not compiled in this configuration (no CUDA/HIP/Level-Zero SDK, no "
           "accelerator): there is no executable implementation to generate inputs against; the CPU-side ownership/version part is C26.",
}
