"""Core of the verification framework driver.

 * builds the instrumented trees of /repo's *current working tree* (out of tree,
   under /verif/.work), under a file lock;
 * builds harness binaries against a tree (depfile-checked, so an edit of an
   inline header of /repo rebuilds the harness);
 * fans a harness out over worker processes with derived seeds and merges what
   they report;
 * writes evidence files, applies the known-findings list, prints VIOLATION
   lines and decides the exit status.
"""
import fcntl
import hashlib
import json
import os
import shlex
import shutil
import struct
import subprocess
import sys
import time
from concurrent.futures import ThreadPoolExecutor

VERIF = os.path.dirname(os.path.dirname(os.path.dirname(os.path.dirname(os.path.abspath(__file__)))))
REPO = os.environ.get("VERIF_REPO", "/repo")
WORK = os.environ.get("VERIF_WORK", os.path.join(VERIF, ".work"))
NCPU = os.cpu_count() or 4
GUARD = "ICLDISCO_PARSEC_VERIF"
# scratch mode (bin/mutcheck): evidence and found replays go under WORK, never into /verif
SCRATCH = os.environ.get("VERIF_SCRATCH", "") == "1"
EVID_DIR = os.path.join(WORK, "evidence") if SCRATCH else os.path.join(VERIF, "evidence")

MPI_ENV = {
    "OMPI_ALLOW_RUN_AS_ROOT": "1",
    "OMPI_ALLOW_RUN_AS_ROOT_CONFIRM": "1",
    "OMPI_MCA_rmaps_base_oversubscribe": "1",
    "OMPI_MCA_btl_vader_single_copy_mechanism": "none",
    "PARSEC_MCA_runtime_warn_slow_binding": "0",
    "PARSEC_MCA_bind_threads": "0",
    "PMIX_MCA_gds": "hash",
}

SAN_RUN_ENV = {
    "ASAN_OPTIONS": "detect_leaks=0:abort_on_error=1:allocator_may_return_null=1:detect_stack_use_after_return=0",
    "UBSAN_OPTIONS": "print_stacktrace=1:halt_on_error=1",
}


def log(*a):
    print("[vf]", *a, file=sys.stderr, flush=True)


def seed():
    s = int(os.environ.get("VERIF_SEED", "0") or 0)
    return s if s != 0 else 1


# --------------------------------------------------------------------------- trees

TREES = {
    # name: (CC, CXX, cflags, extra cmake args, two_step)
    "hooks": dict(cc="gcc", cxx="g++",
                  cflags="-O1 -g -Wno-error -D%s" % GUARD,
                  cmake=["-DPARSEC_PROF_TRACE=OFF", "-DBUILD_TOOLS=OFF"]),
    "san": dict(cc="clang", cxx="clang++",
                cflags="-O1 -g -Wno-error -D%s -fsanitize=address,undefined,fuzzer-no-link -fno-omit-frame-pointer" % GUARD,
                pre_cflags="-O1 -g -Wno-error",
                cmake=["-DPARSEC_PROF_TRACE=OFF", "-DBUILD_TOOLS=OFF"]),
    "prof": dict(cc="gcc", cxx="g++",
                 cflags="-O1 -g -Wno-error -D%s" % GUARD,
                 cmake=["-DPARSEC_PROF_TRACE=ON", "-DBUILD_TOOLS=ON"]),
}


def tree_dir(name):
    return os.path.join(WORK, "build-" + name)


class _Lock:
    def __init__(self, path):
        self.path = path

    def __enter__(self):
        os.makedirs(os.path.dirname(self.path), exist_ok=True)
        self.f = open(self.path, "w")
        fcntl.flock(self.f, fcntl.LOCK_EX)
        return self

    def __exit__(self, *a):
        fcntl.flock(self.f, fcntl.LOCK_UN)
        self.f.close()


def _run(cmd, env=None, cwd=None, logf=None, check=True):
    e = dict(os.environ)
    if env:
        e.update(env)
    p = subprocess.run(cmd, env=e, cwd=cwd, stdout=subprocess.PIPE, stderr=subprocess.STDOUT, text=True, errors="replace")
    if logf:
        with open(logf, "a") as f:
            f.write("$ " + " ".join(shlex.quote(c) for c in cmd) + "\n" + p.stdout + "\n")
    if check and p.returncode != 0:
        sys.stderr.write(p.stdout[-6000:])
        raise RuntimeError("command failed (%d): %s" % (p.returncode, " ".join(cmd)))
    return p


_built = set()


def ensure_tree(name):
    """Configure (first time) and incrementally build tree `name` from /repo's working tree."""
    if name in _built:
        return tree_dir(name)
    t = TREES[name]
    d = tree_dir(name)
    os.makedirs(WORK, exist_ok=True)
    logf = os.path.join(WORK, "build-%s.log" % name)
    with _Lock(os.path.join(WORK, "lock-" + name)):
        env = {"CC": t["cc"], "CXX": t["cxx"], "ASAN_OPTIONS": "detect_leaks=0", "UBSAN_OPTIONS": "halt_on_error=0"}
        if not os.path.exists(os.path.join(d, "build.ninja")):
            t0 = time.time()
            if os.path.exists(d):
                shutil.rmtree(d)
            base = ["cmake", "-G", "Ninja", "-S", REPO, "-B", d, "-DCMAKE_BUILD_TYPE=None",
                    "-DBUILD_TESTING=OFF"] + t["cmake"]
            first = t.get("pre_cflags", t["cflags"])
            _run(base + ["-DCMAKE_C_FLAGS=" + first, "-DCMAKE_CXX_FLAGS=-O1 -g"], env=env, logf=logf)
            if "pre_cflags" in t:
                _run(["cmake", "-S", REPO, "-B", d, "-DCMAKE_C_FLAGS=" + t["cflags"]], env=env, logf=logf)
            log("configured tree %s in %.0fs" % (name, time.time() - t0))
        t0 = time.time()
        p = _run(["cmake", "--build", d, "-j", str(NCPU)], env=env, logf=logf, check=False)
        if p.returncode != 0:
            sys.stderr.write(p.stdout[-8000:])
            raise BuildError("tree %s does not build from the current /repo working tree" % name)
        dt = time.time() - t0
        if dt > 2:
            log("built tree %s in %.0fs" % (name, dt))
    _built.add(name)
    return d


class BuildError(Exception):
    pass


def tree_flags(name):
    d = tree_dir(name)
    inc = ["-I%s/parsec/include" % d, "-I%s" % d, "-I%s/parsec/include" % REPO, "-I%s" % REPO,
           "-I/usr/lib/x86_64-linux-gnu/openmpi/include"]
    defs = ["-DBUILDING_PARSEC", "-D" + GUARD, "-mcx16", "-g", "-O1", "-UNDEBUG", "-fno-omit-frame-pointer"]
    libs = ["-L%s/parsec" % d, "-Wl,-rpath,%s/parsec" % d, "-lparsec", "-lmpi", "-lhwloc", "-lpthread", "-lm", "-ldl"]
    san = []
    if name == "san":
        san = ["-fsanitize=address,undefined"]
    return inc, defs, libs, san


def _deps_stale(out, depfile):
    if not os.path.exists(out) or not os.path.exists(depfile):
        return True
    mt = os.path.getmtime(out)
    try:
        txt = open(depfile).read().replace("\\\n", " ")
        for part in txt.split(":", 1)[1].split() if ":" in txt else []:
            if part.endswith(":"):
                continue
            if not os.path.exists(part) or os.path.getmtime(part) > mt:
                return True
    except Exception:
        return True
    return False


def build_harness(name, sources, tree="san", lang="c++", fuzzer=False, rapidcheck=False,
                  extra_cflags=(), extra_ldflags=(), plain_c_sources=()):
    """Compile a harness executable against tree `tree`.  Returns the path.

    name: e.g. "C36/rbtree_rc".  sources: paths relative to /verif.  The binary is
    rebuilt when any file in its depfiles (harness sources, /repo headers, the
    tree's generated headers) or libparsec.so is newer than it.
    """
    ensure_tree(tree)
    t = TREES[tree]
    inc, defs, libs, san = tree_flags(tree)
    out = os.path.join(WORK, "harness", tree, name)
    os.makedirs(os.path.dirname(out), exist_ok=True)
    srcs = [s if os.path.isabs(s) else os.path.join(VERIF, s) for s in sources]
    csrcs = [s if os.path.isabs(s) else os.path.join(VERIF, s) for s in plain_c_sources]
    libso = os.path.join(tree_dir(tree), "parsec", "libparsec.so")
    sig = hashlib.sha1(json.dumps([srcs, csrcs, tree, lang, fuzzer, rapidcheck, list(extra_cflags), list(extra_ldflags)]).encode()).hexdigest()
    sigf = out + ".sig"
    with _Lock(out + ".lock"):
        stale = (not os.path.exists(out)) or (not os.path.exists(sigf)) or open(sigf).read() != sig
        if not stale and os.path.getmtime(libso) > os.path.getmtime(out):
            stale = True
        objs = []
        allsrc = [(s, lang) for s in srcs] + [(s, "c") for s in csrcs]
        for i, (s, l) in enumerate(allsrc):
            if not stale and _deps_stale(out, out + ".%d.d" % i):
                stale = True
        if not stale:
            return out
        t0 = time.time()
        sanf = list(san)
        if fuzzer:
            sanf = ["-fsanitize=fuzzer-no-link,address,undefined"] if tree == "san" else ["-fsanitize=fuzzer-no-link"]
        jobs = []
        for i, (s, l) in enumerate(allsrc):
            comp = t["cxx"] if l == "c++" else t["cc"]
            std = ["-std=gnu++17"] if l == "c++" else ["-std=gnu11"]
            o = out + ".%d.o" % i
            objs.append(o)
            cmd = [comp] + std + defs + inc + ["-I%s/lib/cxx" % VERIF] + sanf + list(extra_cflags) + \
                  ["-MMD", "-MF", out + ".%d.d" % i, "-c", s, "-o", o]
            jobs.append(cmd)
        with ThreadPoolExecutor(max_workers=8) as ex:
            res = list(ex.map(lambda c: _run(c, check=False), jobs))
        for c, p in zip(jobs, res):
            if p.returncode != 0:
                sys.stderr.write(p.stdout[-8000:])
                raise BuildError("harness %s does not compile: %s" % (name, " ".join(c)))
        linker = t["cxx"]
        lsan = list(san)
        if fuzzer:
            lsan = ["-fsanitize=fuzzer,address,undefined"] if tree == "san" else ["-fsanitize=fuzzer"]
        cmd = [linker] + objs + ["-o", out + ".tmp"] + lsan + list(extra_ldflags) + (["-lrapidcheck"] if rapidcheck else []) + libs
        p = _run(cmd, check=False)
        if p.returncode != 0:
            sys.stderr.write(p.stdout[-8000:])
            raise BuildError("harness %s does not link" % name)
        os.replace(out + ".tmp", out)
        open(sigf, "w").write(sig)
        log("built harness %s [%s] in %.0fs" % (name, tree, time.time() - t0))
    return out


# --------------------------------------------------------------------------- running workers

class WorkerResult:
    def __init__(self):
        self.evaluations = 0
        self.hashes = set()
        self.nontrivial_overflow = 0
        self.labels = {}
        self.samples = []
        self.extra = {}
        self.failures = []   # dicts: {replay_text, msg, worker, log}
        self.crashes = []    # dicts: {rc, log_tail, worker, cmd}
        self.wall = 0.0

    def merge_report(self, rep, hashes_path):
        self.evaluations += int(rep.get("evaluations", 0))
        for k, v in rep.get("labels", {}).items():
            self.labels[k] = self.labels.get(k, 0) + v
        for s in rep.get("samples", []):
            if len(self.samples) < 8:
                self.samples.append(s)
        for k, v in rep.get("extra", {}).items():
            if isinstance(v, (int, float)) and isinstance(self.extra.get(k), (int, float)):
                self.extra[k] += v
            else:
                self.extra.setdefault(k, v)
        if hashes_path and os.path.exists(hashes_path):
            data = open(hashes_path, "rb").read()
            n = len(data) // 8
            self.hashes.update(struct.unpack("<%dQ" % n, data[: n * 8]))

    @property
    def distinct_nontrivial(self):
        return len(self.hashes)


def run_dir(prop):
    d = os.path.join(WORK, "run", prop, str(os.getpid()))
    os.makedirs(d, exist_ok=True)
    return d


def run_workers(prop, jobs, timeout=None, san=True, max_parallel=None):
    """Run harness processes in parallel.

    jobs: list of dicts {cmd: [...], env: {...}, tag: str}.  Every process gets
    VF_OUT=<file>; it must write the JSON report there (vf::dump) and exit 0 when
    the property held on all its cases, 1 after vf::record_failure (a .fail file),
    anything else = crash (sanitizer abort, signal), kept with its log tail.
    """
    res = WorkerResult()
    rd = run_dir(prop)
    t0 = time.time()

    def one(ij):
        i, job = ij
        out = os.path.join(rd, "w%03d.json" % i)
        for suf in ("", ".fail", ".failmsg", ".hashes"):
            try:
                os.unlink(out + suf)
            except OSError:
                pass
        env = dict(os.environ)
        env.update(MPI_ENV)
        if san:
            env.update(SAN_RUN_ENV)
        env.update(job.get("env", {}))
        env["VF_OUT"] = out
        logp = os.path.join(rd, "w%03d.log" % i)
        with open(logp, "w") as lf:
            try:
                p = subprocess.run(job["cmd"], env=env, stdout=lf, stderr=subprocess.STDOUT,
                                   timeout=job.get("timeout", timeout), cwd=job.get("cwd", rd))
                rc = p.returncode
            except subprocess.TimeoutExpired:
                rc = "timeout"
        return i, job, out, logp, rc

    with ThreadPoolExecutor(max_workers=max_parallel or NCPU) as ex:
        outs = list(ex.map(one, enumerate(jobs)))
    for i, job, out, logp, rc in outs:
        rep = {}
        if os.path.exists(out):
            try:
                rep = json.load(open(out))
            except Exception:
                rep = {}
        res.merge_report(rep, out + ".hashes")
        if os.path.exists(out + ".fail"):
            msg = open(out + ".failmsg").read().strip() if os.path.exists(out + ".failmsg") else ""
            res.failures.append(dict(replay_text=open(out + ".fail").read(), msg=msg, worker=i,
                                     tag=job.get("tag", ""), log=logp))
        elif rc != 0:
            tail = ""
            try:
                tail = open(logp, errors="replace").read()[-3000:]
            except OSError:
                pass
            res.crashes.append(dict(rc=rc, worker=i, tag=job.get("tag", ""), log=logp, log_tail=tail,
                                    cmd=job["cmd"]))
    res.wall = time.time() - t0
    log("%s: %d processes (%s) in %.1fs, %d cases" % (prop, len(jobs), jobs[0].get('tag', '') if jobs else '', res.wall, res.evaluations))
    return res


def cleanup_run_dir(prop):
    d = os.path.join(WORK, "run", prop, str(os.getpid()))
    shutil.rmtree(d, ignore_errors=True)


# --------------------------------------------------------------------------- findings

def load_findings():
    p = os.path.join(VERIF, "known_findings.json")
    if not os.path.exists(p):
        return []
    return json.load(open(p)).get("findings", [])


def known_for(prop):
    return [f for f in load_findings() if f.get("property") == prop and f.get("status") == "known"]


# --------------------------------------------------------------------------- result / evidence

class Violation:
    def __init__(self, msg, replay_text=None, replay_path=None, ext="txt", info=None):
        self.msg = msg
        self.replay_text = replay_text
        self.replay_path = replay_path
        self.ext = ext
        self.info = info or {}


class Result:
    def __init__(self, prop):
        self.prop = prop
        self.evaluations = 0
        self.distinct_nontrivial = 0
        self.rule = ""
        self.samples = []
        self.coverage = {}
        self.assumptions = []
        self.violations = []      # Violation
        self.known = []           # strings for KNOWN-FINDING lines
        self.inconclusive = None  # reason string
        self.level = "exploration"

    def absorb(self, wr, what=""):
        """Fold a WorkerResult in (counts, labels, samples)."""
        self.evaluations += wr.evaluations
        self._hashes = getattr(self, "_hashes", set())
        self._hashes |= wr.hashes
        self.distinct_nontrivial = len(self._hashes)
        lab = self.coverage.setdefault("labels", {})
        for k, v in wr.labels.items():
            key = (what + ":" + k) if what else k
            lab[key] = lab.get(key, 0) + v
        for s in wr.samples:
            if len(self.samples) < 10:
                self.samples.append(s if not what else {"part": what, "case": s})
        for k, v in wr.extra.items():
            self.coverage[(what + ":" + k) if what else k] = v


def save_replay(prop, text, ext="txt", binary=False):
    d = os.path.join(WORK, "found", prop) if SCRATCH else os.path.join(VERIF, "corpus", prop, "found")
    os.makedirs(d, exist_ok=True)
    data = text if binary else text.encode()
    h = hashlib.sha1(data).hexdigest()[:12]
    p = os.path.join(d, "%s.%s" % (h, ext))
    with open(p, "wb") as f:
        f.write(data)
    return p


def finish(result, tier, t0):
    """Write evidence, print VIOLATION / KNOWN-FINDING lines, return exit status."""
    prop = result.prop
    nviol = 0
    for k in result.known:
        print("KNOWN-FINDING: property=%s %s" % (prop, k), flush=True)
    seen_msgs = set()
    for v in result.violations:
        # one line per distinct failure message head; the same root cause found by 12 workers is one report
        head = ''.join(ch for ch in v.msg[:60] if not ch.isdigit())
        if head in seen_msgs and nviol >= 1:
            continue
        seen_msgs.add(head)
        if nviol >= 5:
            break
        path = v.replay_path
        if path is None:
            path = save_replay(prop, v.replay_text if v.replay_text is not None else v.msg, v.ext)
        nviol += 1
        print("VIOLATION property=%s replay=%s" % (prop, path), flush=True)
        print("  detail: %s" % v.msg.replace("\n", "\n    ")[:900], flush=True)
    cov = dict(result.coverage)
    if result.violations:
        cov["violation_messages"] = [v.msg[:1500] for v in result.violations[:5]]
    cov["evaluations"] = int(result.evaluations)
    cov["distinct_nontrivial"] = int(result.distinct_nontrivial)
    cov["rule"] = result.rule
    cov["samples"] = result.samples[:10] if result.samples else []
    if result.known:
        cov["known_findings_reproduced"] = list(result.known)
    ev = {
        "property_id": prop,
        "tier": tier,
        "seed": seed(),
        "level": result.level,
        "coverage": cov,
        "assumptions": result.assumptions,
        "wall_s": round(time.time() - t0, 2),
        "violations": nviol,
    }
    os.makedirs(EVID_DIR, exist_ok=True)
    evp = os.path.join(EVID_DIR, prop + ".json")
    with open(evp + ".tmp", "w") as f:
        json.dump(ev, f, indent=1, sort_keys=False, default=str)
        f.write("\n")
    os.replace(evp + ".tmp", evp)
    if nviol:
        return 1
    if result.inconclusive:
        print("INCONCLUSIVE property=%s %s" % (prop, result.inconclusive), file=sys.stderr, flush=True)
        return 2
    print("OK property=%s tier=%s evaluations=%d distinct_nontrivial=%d wall=%.0fs" % (
        prop, tier, result.evaluations, result.distinct_nontrivial, time.time() - t0), flush=True)
    return 0


def split_counts(total, n):
    base = total // n
    return [base + (1 if i < total % n else 0) for i in range(n)]
